/-
  Proofs/RtRec.lean — every tracing call made while enabled ends as exactly one `recDone` or exactly
  one `discard` (unless the run halts on an out-of-bounds store or a failed assertion) (C03).
-/
import BVM.Proofs.RtCount
namespace BVM

def nRec : List Ev → Nat
  | [] => 0
  | .recDone _ _ _ :: l => nRec l + 1
  | _ :: l => nRec l

/-- number of tracing calls that passed their enable test -/
def nCall : List Ev → Nat
  | [] => 0
  | .traceCall _ true :: l => nCall l + 1
  | _ :: l => nCall l

def PNoRec : Ev → Prop
  | .cb _ _ _ _ => True
  | .cbExit _ _ => True
  | .store _ _ _ _ => True
  | .deliver _ _ _ => True
  | .clockRead _ => True
  | .assertFail => True
  | .oob => True
  | .ret _ _ _ => True
  | .tsWrite _ _ => True
  | .traceCall _ _ => False
  | .recDone _ _ _ => False
  | .discard _ => False
  | .fullAnswer _ => True
  | .opened _ => True
  | .closed _ _ _ => True

theorem PQuiet.noRec (e : Ev) (h : PQuiet e) : PNoRec e := by
  cases e <;> simp [PQuiet, PNoRec] at h ⊢

/-- `s'` extends `s` by events among which exactly `dr` records, `dd` discards, `dc` enabled calls -/
def Delta (dr dd dc : Nat) (s s' : St) : Prop :=
  ∃ new, s'.log = new ++ s.log ∧ nRec new = dr ∧ nDisc new = dd ∧ nCall new = dc

theorem counts_append (a b : List Ev) :
    nRec (a ++ b) = nRec a + nRec b ∧ nDisc (a ++ b) = nDisc a + nDisc b ∧ nCall (a ++ b) = nCall a + nCall b := by
  induction a with
  | nil => simp [nRec, nDisc, nCall]
  | cons e es ih =>
    obtain ⟨i1, i2, i3⟩ := ih
    cases e <;> simp [nRec, nDisc, nCall, i1, i2, i3] <;> try omega
    rename_i n b; cases b <;> simp [nCall, i3]; omega

theorem Delta.refl (s : St) : Delta 0 0 0 s s := ⟨[], rfl, rfl, rfl, rfl⟩

theorem Delta.trans {a b c : St} {r1 d1 c1 r2 d2 c2 : Nat} (h₁ : Delta r1 d1 c1 a b) (h₂ : Delta r2 d2 c2 b c) :
    Delta (r1 + r2) (d1 + d2) (c1 + c2) a c := by
  obtain ⟨n1, e1, x1, y1, z1⟩ := h₁
  obtain ⟨n2, e2, x2, y2, z2⟩ := h₂
  obtain ⟨q1, q2, q3⟩ := counts_append n2 n1
  exact ⟨n2 ++ n1, by rw [e2, e1, List.append_assoc], by omega, by omega, by omega⟩

theorem noRec_zero (new : List Ev) (h : ∀ e ∈ new, PNoRec e) : nRec new = 0 ∧ nDisc new = 0 ∧ nCall new = 0 := by
  induction new with
  | nil => exact ⟨rfl, rfl, rfl⟩
  | cons e es ih =>
    have hq := h e (by simp)
    obtain ⟨i1, i2, i3⟩ := ih (fun x hx => h x (by simp [hx]))
    cases e <;> simp [PNoRec] at hq <;> simp [nRec, nDisc, nCall, i1, i2, i3]

theorem Delta.ofExt {s s' : St} (h : Ext PNoRec s s') : Delta 0 0 0 s s' := by
  obtain ⟨new, e, p⟩ := h
  obtain ⟨a, b, c⟩ := noRec_zero new p
  exact ⟨new, e, a, b, c⟩

theorem Same.noRec {s s' : St} (h : Same s s') : Ext PNoRec s s' := h.ext.mono PQuiet.noRec

/-! open/close and the callbacks log no record/discard/call event -/

theorem openWrite_noRec (cfg : Cfg) (d : DST) (args : Args) (ts : Nat) (saved : Bool) (s : St) :
    Ext PNoRec s (openWrite cfg d args ts saved s) := by
  unfold openWrite
  simp only
  have hr := (runSer_same
    (fun st => serRoot (serEnvOf cfg d 0 ts (s.setAt 0).c) "pc" d.pcOp args
      (serRoot (serEnvOf cfg d 0 ts (s.setAt 0).c) "ph" (DST.phOp cfg) [] st)) (s.setAt 0)).noRec
  generalize runSer _ (s.setAt 0) = s2 at hr
  have h0 : Ext PNoRec s (s.setAt 0) := Ext.of_log_eq rfl
  split
  · exact h0.trans hr
  · refine (h0.trans hr).trans ?_
    have h3 : Ext PNoRec s2 (if d.feat.tsBegin.isSome = true then s2.ev (.tsWrite "begin" ts) else s2) := by
      split
      · exact Ext.ev _ (.tsWrite "begin" ts) trivial
      · exact Ext.refl _ _
    refine h3.trans ?_
    generalize (if d.feat.tsBegin.isSome = true then s2.ev (.tsWrite "begin" ts) else s2) = s3
    exact (Ext.ev s3 (.opened s3.c.at_) trivial).trans (Ext.of_log_eq rfl)

theorem openGuarded_noRec (cfg : Cfg) (d : DST) (args : Args) (ts : Nat) (s : St) :
    Ext PNoRec s (openGuarded cfg d args ts s) := by
  unfold openGuarded
  simp only
  split
  · exact Ext.of_log_eq rfl
  · split
    · exact Ext.of_log_eq rfl
    · exact (Ext.of_log_eq (s' := s.setFlag true) rfl).trans (openWrite_noRec cfg d args ts _ _)

theorem openPacket_noRec (cfg : Cfg) (d : DST) (args : Args) (s : St) : Ext PNoRec s (openPacket cfg d args s) := by
  unfold openPacket
  split
  · exact Ext.refl _ _
  · exact (preambleTs_same d d.feat.tsBegin s).noRec.trans (openGuarded_noRec cfg d args _ _)

theorem closeFinish_noRec (d : DST) (ts : Nat) (saved : Bool) (s3 : St) : Ext PNoRec s3 (closeFinish d ts saved s3) := by
  unfold closeFinish
  split
  · exact Ext.refl _ _
  · simp only
    have h4 : Ext PNoRec s3 (if d.feat.tsEnd.isSome = true then s3.ev (.tsWrite "end" ts) else s3) := by
      split
      · exact Ext.ev _ (.tsWrite "end" ts) trivial
      · exact Ext.refl _ _
    refine h4.trans ?_
    generalize (if d.feat.tsEnd.isSome = true then s3.ev (.tsWrite "end" ts) else s3) = s4
    refine (Ext.ev s4 (.closed s4.c.contentSize s4.c.sequenceNumber s4.c.eventsDiscarded) trivial).trans ?_
    split <;> exact Ext.of_log_eq rfl

theorem closeGuarded_noRec (cfg : Cfg) (d : DST) (ts : Nat) (s : St) : Ext PNoRec s (closeGuarded cfg d ts s) := by
  unfold closeGuarded
  simp only
  split
  · exact Ext.of_log_eq rfl
  · split
    · exact Ext.of_log_eq rfl
    · unfold closeWrite
      exact (Ext.of_log_eq (s' := (s.setFlag true).setContentSize (s.setFlag true).c.at_) rfl).trans
        ((closeBacks_same cfg d ts _).noRec.trans (closeFinish_noRec d ts _ _))

theorem closePacket_noRec (cfg : Cfg) (d : DST) (s : St) : Ext PNoRec s (closePacket cfg d s) := by
  unfold closePacket
  split
  · exact Ext.refl _ _
  · exact (preambleTs_same d d.feat.tsEnd s).noRec.trans (closeGuarded_noRec cfg d _ _)

theorem cbOpen_noRec (cfg : Cfg) (d : DST) (s : St) : Ext PNoRec s (cbOpen cfg d s) := by
  unfold cbOpen
  split
  · exact Ext.refl _ _
  · simp only
    have h1 := (cbEnter_same .open_ s).noRec
    generalize cbEnter .open_ s = s1 at h1
    exact h1.trans ((Ext.of_log_eq (s' := s1.bumpOpen) rfl).trans
      ((openPacket_noRec cfg d s1.openArgsNow s1.bumpOpen).trans (Ext.ev _ (.cbExit _ _) trivial)))

theorem cbClose_noRec (cfg : Cfg) (d : DST) (s : St) : Ext PNoRec s (cbClose cfg d s) := by
  unfold cbClose
  split
  · exact Ext.refl _ _
  · simp only
    have h1 := (cbEnter_same .close s).noRec
    generalize cbEnter .close s = s1 at h1
    exact h1.trans ((Ext.of_log_eq (s' := s1.bumpClose) rfl).trans
      ((closePacket_noRec cfg d s1.bumpClose).trans (deliverAndSwap_same _ _ _).noRec))

theorem withUseCur_noRec (f : St → St) (hf : ∀ s, Ext PNoRec s (f s)) (s : St) : Ext PNoRec s (withUseCur f s) := by
  unfold withUseCur
  exact (Ext.of_log_eq (s' := s.setUseCur true) rfl).trans ((hf _).trans (Ext.of_log_eq rfl))

theorem commit_noRec (cfg : Cfg) (d : DST) (s : St) : Ext PNoRec s (commit cfg d s) := by
  unfold commit
  split
  · exact Ext.refl _ _
  · split
    · exact cbClose_noRec cfg d s
    · exact Ext.refl _ _

/-! `_reserve_er_space`: no record; exactly one discard iff it returns 0 -/

theorem noSpace_delta (cf : Bool) (s : St) : Delta 0 1 0 s (noSpace cf s).2 :=
  ⟨[.discard cf], rfl, by simp [nRec], by simp [nDisc], by simp [nCall]⟩

def dOf (ok : Bool) : Nat := if ok then 0 else 1

theorem reopenAfterClose_delta (cfg : Cfg) (d : DST) (s : St) :
    Delta 0 (dOf (reopenAfterClose cfg d s).1) 0 s (reopenAfterClose cfg d s).2 := by
  unfold reopenAfterClose
  simp only
  have h1 := Delta.ofExt (cbFull_same s).noRec
  split
  · exact h1.trans (noSpace_delta _ _)
  · exact h1.trans (Delta.ofExt (withUseCur_noRec (cbOpen cfg d) (cbOpen_noRec cfg d) (cbFull s).2))

theorem reserveTail_delta (cfg : Cfg) (d : DST) (erSize : Nat) (s : St)
    (hn : (reserveTail cfg d erSize s).2.halted = false) :
    Delta 0 (dOf (reserveTail cfg d erSize s).1) 0 s (reserveTail cfg d erSize s).2 := by
  unfold reserveTail at hn ⊢
  cases hh : s.halted
  · simp only [hh, Bool.false_eq_true, if_false] at hn ⊢
    split
    · have h1 := Delta.ofExt (withUseCur_noRec (cbClose cfg d) (cbClose_noRec cfg d) s)
      have h2 := reopenAfterClose_delta cfg d (withUseCur (cbClose cfg d) s)
      have := h1.trans h2
      simpa using this
    · exact Delta.refl s
  · simp only [hh, if_true] at hn
    first | cases hn | (rw [hh] at hn; cases hn)

theorem reserve_delta (cfg : Cfg) (d : DST) (erSize emptySize : Nat) (s : St)
    (hn : (reserve cfg d erSize emptySize s).2.halted = false) :
    Delta 0 (dOf (reserve cfg d erSize emptySize s).1) 0 s (reserve cfg d erSize emptySize s).2 := by
  unfold reserve at hn ⊢
  split
  · exact noSpace_delta _ _
  · rename_i h1
    simp only [h1, if_false] at hn
    split
    · rename_i h2
      simp only [h2, if_true] at hn ⊢
      have e1 := Delta.ofExt (cbFull_same s).noRec
      split
      · exact e1.trans (noSpace_delta _ _)
      · rename_i h3
        simp only [h3, if_false] at hn
        have e2 := Delta.ofExt (withUseCur_noRec (cbOpen cfg d) (cbOpen_noRec cfg d) (cbFull s).2)
        have e3 := reserveTail_delta cfg d erSize _ hn
        have := (e1.trans e2).trans e3
        simpa using this
    · rename_i h2
      simp only [h2, if_false] at hn
      exact reserveTail_delta cfg d erSize s hn

theorem traceWrite_delta (cfg : Cfg) (d : DST) (e : ERT) (args : Args) (s : St)
    (hn : (traceWrite cfg d e args s).halted = false) : Delta 1 0 0 s (traceWrite cfg d e args s) := by
  unfold traceWrite at hn ⊢
  simp only at hn ⊢
  have h1 := Delta.ofExt (runSer_same (serRecord (serEnvOf cfg d e.id s.c.curLastEventTs s.c) d e args) s).noRec
  generalize runSer _ s = s1 at h1 hn
  cases hh : s1.halted
  · simp only [hh, Bool.false_eq_true, if_false] at hn ⊢
    have h2 : Delta 0 0 0 s1 (if d.feat.erTs.isSome = true then s1.ev (.tsWrite "rec" s1.c.curLastEventTs) else s1) := by
      split
      · exact Delta.ofExt (Ext.ev _ (.tsWrite _ _) trivial)
      · exact Delta.refl _
    generalize (if d.feat.erTs.isSome = true then s1.ev (.tsWrite "rec" s1.c.curLastEventTs) else s1) = s2 at h2 hn
    have h3 : Delta 1 0 0 s2 (s2.ev (.recDone e.name s.c.at_ s2.c.at_)) := ⟨[_], rfl, by simp [nRec], by simp [nDisc], by simp [nCall]⟩
    have h4 := Delta.ofExt (commit_noRec cfg d (s2.ev (.recDone e.name s.c.at_ s2.c.at_)))
    have hall := ((h1.trans h2).trans h3).trans h4
    split
    · simpa using hall
    · have := hall.trans (Delta.ofExt (Ext.of_log_eq (s' := (commit cfg d (s2.ev (.recDone e.name s.c.at_ s2.c.at_))).setFlag false) rfl))
      simpa using this
  · simp only [hh, if_true] at hn
    first | cases hn | (rw [hh] at hn; cases hn)

/-- a call that passed its enable test and did not halt: exactly one record or exactly one discard -/
theorem traceEnabled_delta (cfg : Cfg) (d : DST) (e : ERT) (args : Args) (s : St)
    (hn : (traceEnabled cfg d e args s).halted = false) :
    ∃ dr dd, dr + dd = 1 ∧ Delta dr dd 0 s (traceEnabled cfg d e args s) := by
  unfold traceEnabled traceAfterReserve at hn ⊢
  generalize hr : reserve cfg d (erSizeAt d e args s.c.at_) (erSizeAt d e args s.c.offContent) s = r at hn
  cases hh : r.2.halted
  · simp only [hh, Bool.false_eq_true, if_false] at hn ⊢
    have h1 := reserve_delta cfg d (erSizeAt d e args s.c.at_) (erSizeAt d e args s.c.offContent) s (by rw [hr]; exact hh)
    rw [hr] at h1
    cases hok : r.1
    · simp only [hok, Bool.not_false, if_true] at hn ⊢
      refine ⟨0, 1, rfl, ?_⟩
      have := h1.trans (Delta.ofExt (Ext.of_log_eq (s' := r.2.setFlag false) rfl))
      simpa [dOf, hok] using this
    · simp only [hok, Bool.not_true, Bool.false_eq_true, if_false] at hn ⊢
      by_cases hc : sizeAfterReserve d e args s.c.at_ (erSizeAt d e args s.c.at_) r.2 > r.2.c.room r.2.c.at_
      · simp only [hc, if_true] at hn ⊢
        refine ⟨0, 1, rfl, ?_⟩
        have := (h1.trans (noSpace_delta true r.2)).trans
          (Delta.ofExt (Ext.of_log_eq (s' := (noSpace true r.2).2.setFlag false) rfl))
        simpa [dOf, hok] using this
      · simp only [hc, if_false] at hn ⊢
        refine ⟨1, 0, rfl, ?_⟩
        have := h1.trans (traceWrite_delta cfg d e args r.2 hn)
        simpa [dOf, hok] using this
  · simp only [hh, if_true] at hn
    first | cases hn | (rw [hh] at hn; cases hn)

/-- balance between tracing calls that passed their enable test, records and discards -/
def Bal (s : St) : Prop := s.halted = false → nCall s.log = nRec s.log + nDisc s.log

theorem Delta.bal {s s' : St} {dr dd dc : Nat} (h : Delta dr dd dc s s') (hb : nCall s.log = nRec s.log + nDisc s.log)
    (hd : dc = dr + dd) : nCall s'.log = nRec s'.log + nDisc s'.log := by
  obtain ⟨new, e, x, y, z⟩ := h
  obtain ⟨q1, q2, q3⟩ := counts_append new s.log
  rw [e, q1, q2, q3]; omega

theorem traceBody_delta (cfg : Cfg) (d : DST) (e : ERT) (args : Args) (s : St)
    (hn : (traceBody cfg d e args s).halted = false) :
    ∃ dr dd dc, dc = dr + dd ∧ Delta dr dd dc s (traceBody cfg d e args s) := by
  unfold traceBody at hn ⊢
  simp only at hn ⊢
  cases he : s.c.isTracingEnabled
  · simp only [St.ev_c, he, Bool.not_false, if_true] at hn ⊢
    exact ⟨0, 0, 0, rfl, ⟨[.traceCall e.name false], rfl, by simp [nRec], by simp [nDisc], by simp [nCall]⟩⟩
  · simp only [St.ev_c, he, Bool.not_true, Bool.false_eq_true, if_false] at hn ⊢
    obtain ⟨dr, dd, h1, h2⟩ := traceEnabled_delta cfg d e args _ hn
    have h0 : Delta 0 0 1 s ((s.ev (.traceCall e.name true)).setFlag true) := ⟨[.traceCall e.name true], rfl, by simp [nRec], by simp [nDisc], by simp [nCall]⟩
    refine ⟨dr, dd, 1, by omega, ?_⟩
    have := h0.trans h2
    simpa using this

theorem stepOp_bal (cfg : Cfg) (d : DST) (op : Op) (s : St) (hb : Bal s) : Bal (stepOp cfg d op s) := by
  unfold stepOp
  cases hh : s.halted
  · have hb0 := hb hh
    simp only [Bool.false_eq_true, if_false]
    have key : ∀ (name : String) (s' : St),
        (s'.halted = false → nCall s'.log = nRec s'.log + nDisc s'.log) →
        Bal (if s'.halted = true then s' else s'.ev (.ret name s'.c s'.buf.length)) := by
      intro name s' h
      cases h2 : s'.halted
      · simp only [Bool.false_eq_true, if_false]
        intro _
        have := h h2
        simpa [nCall, nRec, nDisc] using this
      · simp only [if_true]; intro hc; rw [h2] at hc; cases hc
    have noRec : ∀ s', Ext PNoRec s s' → (s'.halted = false → nCall s'.log = nRec s'.log + nDisc s'.log) := by
      intro s' h _
      exact (Delta.ofExt h).bal hb0 rfl
    cases op with
    | open_ => exact key "open" _ (noRec _ (cbOpen_noRec cfg d s))
    | close => exact key "close" _ (noRec _ (cbClose_noRec cfg d s))
    | trace en args =>
      simp only
      split
      · rename_i e _
        refine key "trace" _ ?_
        intro hn
        unfold trace at hn ⊢
        simp only [hh, Bool.false_eq_true, if_false] at hn ⊢
        obtain ⟨dr, dd, dc, h1, h2⟩ := traceBody_delta cfg d e args _ hn
        have h0 := Delta.ofExt (traceClock_same d s).noRec
        exact (h0.trans h2).bal hb0 (by omega)
      · exact key "trace" _ (fun _ => hb0)
    | enable b => exact key "enable" _ (fun _ => hb0)
    | query => exact key "query" _ (fun _ => hb0)
    | fin =>
      have hfin : (if (s.c.packetIsOpen && !s.c.isEmpty) = true then cbClose cfg d s else s).halted = false →
          nCall (if (s.c.packetIsOpen && !s.c.isEmpty) = true then cbClose cfg d s else s).log =
            nRec (if (s.c.packetIsOpen && !s.c.isEmpty) = true then cbClose cfg d s else s).log +
            nDisc (if (s.c.packetIsOpen && !s.c.isEmpty) = true then cbClose cfg d s else s).log := by
        split
        · exact noRec _ (cbClose_noRec cfg d s)
        · exact fun _ => hb0
      exact key "fin" _ hfin
  · simp only [if_true]; intro hc; rw [hh] at hc; cases hc

theorem runOps_bal (cfg : Cfg) (d : DST) (ops : List Op) (s : St) (hb : Bal s) : Bal (runOps cfg d ops s) := by
  unfold runOps
  induction ops generalizing s with
  | nil => exact hb
  | cons op ops ih => simp only [List.foldl_cons]; exact ih _ (stepOp_bal cfg d op s hb)


/-! why `_reserve_er_space` says no -/

/-- the back end answered "full" somewhere between `s` and `s'` -/
def FullYes (s s' : St) : Prop := ∃ new, s'.log = new ++ s.log ∧ Ev.fullAnswer true ∈ new

theorem FullYes.after {P : Ev → Prop} {a b c : St} (h₁ : Ext P a b) (h₂ : FullYes b c) : FullYes a c := by
  obtain ⟨n1, e1, _⟩ := h₁
  obtain ⟨n2, e2, m⟩ := h₂
  exact ⟨n2 ++ n1, by rw [e2, e1, List.append_assoc], List.mem_append.mpr (Or.inl m)⟩

theorem FullYes.before {P : Ev → Prop} {a b c : St} (h₁ : FullYes a b) (h₂ : Ext P b c) : FullYes a c := by
  obtain ⟨n1, e1, m⟩ := h₁
  obtain ⟨n2, e2, _⟩ := h₂
  exact ⟨n2 ++ n1, by rw [e2, e1, List.append_assoc], List.mem_append.mpr (Or.inr m)⟩

theorem cbFull_yes (s : St) (h : (cbFull s).1 = true) : FullYes s (cbFull s).2 := by
  obtain ⟨n1, e1, _⟩ := (cbEnter_same .full s).ext
  unfold cbFull at h ⊢
  simp only at h ⊢
  generalize cbEnter .full s = s1 at e1 h
  refine ⟨[.cbExit .full s1.c.inTracingSection, .fullAnswer (s1.p.fullAnswers.headD false)] ++ n1, ?_, ?_⟩
  · show _ :: _ :: s1.log = _
    rw [e1]; rfl
  · rw [h]; simp

theorem noSpace_log (cf : Bool) (s : St) : Ext (fun _ => True) s (noSpace cf s).2 :=
  ⟨[.discard cf], rfl, fun _ _ => trivial⟩

theorem reopenAfterClose_reason (cfg : Cfg) (d : DST) (s : St)
    (h : (reopenAfterClose cfg d s).1 = false) : FullYes s (reopenAfterClose cfg d s).2 := by
  unfold reopenAfterClose at h ⊢
  simp only at h ⊢
  cases hf : (cbFull s).1
  · simp only [hf, Bool.false_eq_true, if_false] at h
    cases h
  · simp only [if_true]
    exact (cbFull_yes s hf).before (noSpace_log false _)

theorem reserveTail_reason (cfg : Cfg) (d : DST) (erSize : Nat) (s : St)
    (hn : (reserveTail cfg d erSize s).2.halted = false) (h : (reserveTail cfg d erSize s).1 = false) :
    FullYes s (reserveTail cfg d erSize s).2 := by
  unfold reserveTail at hn h ⊢
  cases hh : s.halted
  · simp only [hh, Bool.false_eq_true, if_false] at hn h ⊢
    split
    · rename_i hc
      simp only [hc, if_true] at h
      exact FullYes.after (withUseCur_noRec (cbClose cfg d) (cbClose_noRec cfg d) s) (reopenAfterClose_reason cfg d _ h)
    · rename_i hc
      simp only [hc, if_false] at h
      cases h
  · simp only [hh, if_true] at hn
    first | cases hn | (rw [hh] at hn; cases hn)

/-- C03, last sentence: `_reserve_er_space` refuses a record only if it cannot fit an empty packet
    (its size at the content offset against `packet_size - off_content`) or the back end answered
    "full" during the call -/
theorem reserve_reason (cfg : Cfg) (d : DST) (erSize emptySize : Nat) (s : St)
    (hn : (reserve cfg d erSize emptySize s).2.halted = false) (h : (reserve cfg d erSize emptySize s).1 = false) :
    emptySize > s.c.room s.c.offContent ∨ FullYes s (reserve cfg d erSize emptySize s).2 := by
  by_cases h1 : emptySize > s.c.room s.c.offContent
  · exact Or.inl h1
  · refine Or.inr ?_
    unfold reserve at hn h ⊢
    simp only [h1, if_false] at hn h ⊢
    cases h2 : s.c.isFull
    · simp only [h2, Bool.false_eq_true, if_false] at hn h ⊢
      exact reserveTail_reason cfg d erSize s hn h
    · simp only [h2, if_true] at hn h ⊢
      cases hf : (cbFull s).1
      · simp only [hf, Bool.false_eq_true, if_false] at hn h ⊢
        exact FullYes.after ((cbFull_same s).noRec.trans (withUseCur_noRec (cbOpen cfg d) (cbOpen_noRec cfg d) _))
          (reserveTail_reason cfg d erSize _ hn h)
      · simp only [if_true]
        exact (cbFull_yes s hf).before (noSpace_log false _)

end BVM
