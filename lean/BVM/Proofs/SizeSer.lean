/-
  Proofs/SizeSer.lean — the size pass and the serialise pass of an operation tree (C02):
  (1) they advance `at` identically (both in `uint32_t` arithmetic), for every tree of argument writes;
  (2) if the size of a root structure computed without any wrap-around ends inside the buffer, serialising it
      performs no store outside the buffer, and ends exactly there.
-/
import BVM.Proofs.RoundTrip
namespace BVM

/-! ### (1) same advance -/

/-- every write of the tree takes its value from the arguments (user roots: contexts, payload) -/
def EOp.allArg : EOp → Bool
  | .leaf _ w => w.src == .arg
  | .loop _ _ b => b.allArg

theorem plainElem_allArg : ∀ e : Elem, (plainElem e).allArg = true
  | .sc _ => rfl
  | .sarr _ e => plainElem_allArg e

/-- the two passes are in step: same position, same remaining leaves -/
def InStep (z : SizeSt) (s : SerSt) : Prop := z.at_ = s.at_ ∧ z.leaves = s.leaves

theorem iterN_inStep (f : SizeSt → SizeSt) (g : SerSt → SerSt) (h : ∀ z s, InStep z s → InStep (f z) (g s)) :
    ∀ (n : Nat) (z : SizeSt) (s : SerSt), InStep z s → InStep (iterN f n z) (iterN g n s)
  | 0, _, _, hi => hi
  | n + 1, z, s, hi => iterN_inStep f g h n _ _ (h z s hi)

theorem sizeAlign_inStep (al : Option Nat) (z : SizeSt) (s : SerSt) (h : InStep z s) :
    InStep (sizeAlign al z) (serAlign al s) := by
  cases al with
  | none => exact h
  | some a => exact ⟨by simp only [sizeAlign, serAlign, h.1], h.2⟩

theorem store_at (s : SerSt) (b n : Nat) (nb : Buf) : (s.store b n nb).at_ = s.at_ := by
  unfold SerSt.store; split <;> rfl
theorem store_leaves (s : SerSt) (b n : Nat) (nb : Buf) : (s.store b n nb).leaves = s.leaves := by
  unfold SerSt.store; split <;> rfl

theorem sizeElem_inStep (env : SerEnv) : ∀ (op : EOp), op.allArg = true → ∀ (z : SizeSt) (s : SerSt), InStep z s →
    InStep (sizeElem op z) (serElem env op s)
  | .leaf al w, ha, z, s, h => by
    obtain ⟨src, sc, o⟩ := w
    simp only [EOp.allArg, beq_iff_eq] at ha
    subst ha
    have h1 := sizeAlign_inStep al z s h
    generalize hz1 : sizeAlign al z = z1 at h1
    generalize hs1 : serAlign al s = s1 at h1
    simp only [sizeElem, serElem, serWrite, hs1, hz1]
    have hzl : z1.leaves = s1.leaves := h1.2
    have hp1 : z1.pop.1 = s1.pop.1 := by
      cases hl : s1.leaves <;> simp [SizeSt.pop, SerSt.pop, hzl, hl]
    have hp2 : z1.pop.2.leaves = s1.pop.2.leaves := by
      cases hl : s1.leaves <;> simp [SizeSt.pop, SerSt.pop, hzl, hl]
    cases sc with
    | str =>
      refine ⟨?_, ?_⟩
      · show u32 (z1.at_ + u32 (8 * u32 (z1.pop.1.bytes.length + 1))) = (writeStr s1.pop.1.bytes s1.pop.2).at_
        unfold writeStr
        simp only [store_at, pop_at, hp1, h1.1]
      · show z1.pop.2.leaves = (writeStr s1.pop.1.bytes s1.pop.2).leaves
        unfold writeStr
        simp only [store_leaves, hp2]
    | int sg sz a =>
      refine ⟨?_, ?_⟩
      · show u32 (z1.at_ + sz) = (writeBits env (.int sg sz a) o s1.pop.1.toInt s1.pop.2).at_
        rw [writeBits_at, pop_at, h1.1]; rfl
      · show z1.pop.2.leaves = (writeBits env (.int sg sz a) o s1.pop.1.toInt s1.pop.2).leaves
        unfold writeBits
        simp only
        split <;> simp only [store_leaves, hp2]
    | real sz a =>
      refine ⟨?_, ?_⟩
      · show u32 (z1.at_ + sz) = (writeBits env (.real sz a) o s1.pop.1.toInt s1.pop.2).at_
        rw [writeBits_at, pop_at, h1.1]; rfl
      · show z1.pop.2.leaves = (writeBits env (.real sz a) o s1.pop.1.toInt s1.pop.2).leaves
        unfold writeBits
        simp only
        split <;> simp only [store_leaves, hp2]
  | .loop al n body, ha, z, s, h => by
    simp only [EOp.allArg] at ha
    simp only [sizeElem, serElem]
    exact iterN_inStep _ _ (sizeElem_inStep env body ha) n _ _ (sizeAlign_inStep al z s h)

def MOp.allArg : MOp → Bool
  | .el _ e => e.allArg
  | .dloop _ _ _ b => b.allArg

theorem sizeMember_eq (env : SerEnv) (pfx : String) (args : Args) (m : MOp) (ha : m.allArg = true) (s : SerSt) :
    sizeMember pfx args m s.at_ = (serMember env pfx args m s).at_ := by
  cases m with
  | el name e =>
    simp only [MOp.allArg] at ha
    exact (sizeElem_inStep env e ha ⟨s.at_, _⟩ { s with leaves := _ } ⟨rfl, rfl⟩).1
  | dloop name al ln body =>
    simp only [MOp.allArg] at ha
    simp only [sizeMember, serMember]
    exact (iterN_inStep _ _ (sizeElem_inStep env body ha) _ _ _
      (sizeAlign_inStep al ⟨s.at_, _⟩ { s with leaves := _ } ⟨rfl, rfl⟩)).1

theorem foldl_size_eq (env : SerEnv) (pfx : String) (args : Args) : ∀ (ms : List MOp), (∀ m ∈ ms, m.allArg = true) →
    ∀ s0 : SerSt, ms.foldl (fun a m => sizeMember pfx args m a) s0.at_ =
      (ms.foldl (fun a m => serMember env pfx args m a) s0).at_
  | [], _, _ => rfl
  | m :: ms, ha, s0 => by
    simp only [List.foldl_cons]
    rw [sizeMember_eq env pfx args m (ha m (by simp)) s0]
    exact foldl_size_eq env pfx args ms (fun m' hm' => ha m' (by simp [hm'])) _

/-- the size pass of a root of argument writes ends where its serialisation ends (both in `uint32_t` arithmetic) -/
theorem sizeRoot_eq (env : SerEnv) (pfx : String) (args : Args) (r : RootOp) (ha : ∀ m ∈ r.members, m.allArg = true)
    (s : SerSt) : sizeRoot pfx r args s.at_ = (serRoot env pfx r args s).at_ := by
  simp only [sizeRoot, serRoot]
  have h0 : (sizeAlign r.al ⟨s.at_, []⟩).at_ = (serAlign r.al s).at_ := by cases r.al <;> rfl
  rw [h0]
  exact foldl_size_eq env pfx args r.members ha _

/-! ### (2) a record whose true size ends inside the buffer is written inside the buffer -/

/-- position and remaining leaves after one value of element type `e`, computed in unbounded arithmetic -/
def elemEndN : Elem → Nat × List Leaf → Nat × List Leaf
  | .sc sc, (a, ls) =>
    let a1 := alignNat a sc.align
    match sc with
    | .str => (a1 + 8 * ((ls.headD (.num 0)).bytes.length + 1), ls.tail)
    | sc => (a1 + sc.size, ls.tail)
  | .sarr n e, (a, ls) => iterN (elemEndN e) n (alignNat a e.align, ls)

theorem elemEndN_mono : ∀ (e : Elem), 0 < e.align → ∀ (p : Nat × List Leaf), p.1 ≤ (elemEndN e p).1
  | .sc sc, hal, (a, ls) => by
    have := alignNat_ge a sc.align hal
    cases sc <;> simp only [elemEndN] <;> omega
  | .sarr n e, hal, (a, ls) => by
    simp only [elemEndN]
    have h0 := alignNat_ge a e.align hal
    have : ∀ (n : Nat) (p : Nat × List Leaf), p.1 ≤ (iterN (elemEndN e) n p).1 := by
      intro n
      induction n with
      | zero => intro p; exact Nat.le_refl _
      | succ n ih => intro p; exact Nat.le_trans (elemEndN_mono e hal p) (ih _)
    exact Nat.le_trans h0 (this n (alignNat a e.align, ls))

theorem iterN_mono (e : Elem) (hal : 0 < e.align) : ∀ (n : Nat) (p : Nat × List Leaf), p.1 ≤ (iterN (elemEndN e) n p).1
  | 0, p => Nat.le_refl _
  | n + 1, p => Nat.le_trans (elemEndN_mono e hal p) (iterN_mono e hal n _)

/-- what serialising from `s` to `s'` does when it stays inside the buffer -/
structure InBounds (L : Nat) (s s' : SerSt) (endN : Nat × List Leaf) : Prop where
  oob : s'.oob = false
  at_ : s'.at_ = endN.1
  leaves : s'.leaves = endN.2
  len : s'.buf.length = L

theorem serAlign_alOp (al : Nat) (s : SerSt) (hal : 0 < al) (h : s.at_ + al ≤ 2 ^ 32) :
    (serAlign (alOp al) s).at_ = alignNat s.at_ al := by
  unfold alOp
  by_cases h1 : al > 1
  · simp only [h1, if_true, serAlign]; exact alignUp_eq _ _ (by omega)
  · have : al = 1 := by omega
    subst this
    simp [serAlign, alignNat]

theorem store_ok (s : SerSt) (b n : Nat) (nb : Buf) (h0 : s.oob = false) (hin : b + n ≤ s.buf.length)
    (hl : nb.length = s.buf.length) : (s.store b n nb).oob = false ∧ (s.store b n nb).buf.length = s.buf.length := by
  unfold SerSt.store; simp [hin, h0, hl]

theorem writeBits_in (env : SerEnv) (sc : Scalar) (v : Int) (s : SerSt) (h0 : s.oob = false)
    (hfit : s.at_ + sc.size ≤ 8 * s.buf.length) (h32 : 8 * s.buf.length < 2 ^ 32) :
    (writeBits env sc none v s).oob = false ∧ (writeBits env sc none v s).at_ = s.at_ + sc.size ∧
    (writeBits env sc none v s).leaves = s.leaves ∧ (writeBits env sc none v s).buf.length = s.buf.length := by
  have hat : (writeBits env sc none v s).at_ = s.at_ + sc.size := by
    rw [writeBits_at]; simp only [u32]; omega
  unfold writeBits at hat ⊢
  simp only at hat ⊢
  by_cases hp : sc.align % 8 = 0 ∧ (sc.size = 8 ∨ sc.size = 16 ∨ sc.size = 32 ∨ sc.size = 64) ∧ env.fast = true
  · rw [if_pos hp]
    have hst := store_ok s (s.at_ / 8) (sc.size / 8) (memcpyLE (sc.size / 8) s.buf (s.at_ / 8) ((v % 2 ^ sc.size).toNat))
      h0 (by omega) (by rw [memcpyLE_length])
    exact ⟨hst.1, hat, by show (s.store _ _ _).leaves = _; rw [store_leaves], hst.2⟩
  · rw [if_neg hp]
    have hb : s.at_ / 8 + (s.at_ % 8 + sc.size + 7) / 8 ≤ s.buf.length := by omega
    have hst := store_ok s (s.at_ / 8 + s.at_ % 8 / 8) ((s.at_ % 8 + sc.size + 7) / 8 - s.at_ % 8 / 8)
      (bfWrite env.bo sc.carrier s.buf (s.at_ / 8) (s.at_ % 8) sc.size (sc.carrier.conv v))
      h0 (by omega) (bfWrite_length _ _ _ _ _ _ _ hb)
    exact ⟨hst.1, hat, by show (s.store _ _ _).leaves = _; rw [store_leaves], hst.2⟩

theorem writeStr_in (bytes : List Nat) (s : SerSt) (h0 : s.oob = false) (h8 : s.at_ % 8 = 0)
    (hfit : s.at_ + 8 * (bytes.length + 1) ≤ 8 * s.buf.length) (h32 : 8 * s.buf.length < 2 ^ 32) :
    (writeStr bytes s).oob = false ∧ (writeStr bytes s).at_ = s.at_ + 8 * (bytes.length + 1) ∧
    (writeStr bytes s).leaves = s.leaves ∧ (writeStr bytes s).buf.length = s.buf.length := by
  unfold writeStr
  simp only
  have hst := store_ok s (s.at_ / 8) (bytes.length + 1) (memcpyBytes (bytes ++ [0]) s.buf (s.at_ / 8))
    h0 (by omega) (by rw [memcpyBytes_length])
  refine ⟨hst.1, ?_, by show (s.store _ _ _).leaves = _; rw [store_leaves], hst.2⟩
  show u32 (s.at_ + u32 (8 * u32 (bytes.length + 1))) = _
  simp only [u32]; omega

theorem leaf_in_bounds (env : SerEnv) (L A : Nat) (sc : Scalar) (s : SerSt) (hA : sc.align ≤ A) (hal : 0 < sc.align)
    (hsmall : 8 * L + A ≤ 2 ^ 32) (hApos : 0 < A) (hlen : s.buf.length = L) (h0 : s.oob = false)
    (hfit : (elemEndN (.sc sc) (s.at_, s.leaves)).1 ≤ 8 * L) :
    InBounds L s (serElem env (plainElem (.sc sc)) s) (elemEndN (.sc sc) (s.at_, s.leaves)) := by
  have hge := alignNat_ge s.at_ sc.align hal
  have hfit' : alignNat s.at_ sc.align ≤ 8 * L := by cases sc <;> simp only [elemEndN] at hfit <;> omega
  have hat1 : (serAlign (alOp sc.align) s).at_ = alignNat s.at_ sc.align := serAlign_alOp sc.align s hal (by omega)
  simp only [plainElem, serElem, serWrite]
  generalize hs1 : serAlign (alOp sc.align) s = s1 at hat1
  have hb1 : s1.buf = s.buf := by rw [← hs1, serAlign_buf]
  have hl1 : s1.leaves = s.leaves := by rw [← hs1, serAlign_leaves]
  have ho1 : s1.oob = false := by rw [← hs1, serAlign_oob]; exact h0
  have hpl : s1.pop.2.leaves = s.leaves.tail := by rw [pop_leaves, hl1]
  have hpf : s1.pop.1 = s.leaves.headD (.num 0) := by rw [pop_fst, hl1]
  have hpa : s1.pop.2.at_ = alignNat s.at_ sc.align := by rw [pop_at, hat1]
  have hpb : s1.pop.2.buf.length = L := by rw [pop_buf, hb1, hlen]
  have hpo : s1.pop.2.oob = false := by rw [pop_oob]; exact ho1
  cases sc with
  | str =>
    simp only [elemEndN] at hfit ⊢
    have hm8 : alignNat s.at_ Scalar.str.align % 8 = 0 := alignNat_mod8 _ _ rfl
    obtain ⟨w1, w2, w3, w4⟩ := writeStr_in s1.pop.1.bytes s1.pop.2 hpo (by rw [hpa]; exact hm8)
      (by rw [hpa, hpb, hpf]; exact hfit) (by rw [hpb]; omega)
    exact ⟨w1, by rw [w2, hpa, hpf], by rw [w3, hpl], by rw [w4, hpb]⟩
  | int sg sz al =>
    simp only [elemEndN] at hfit ⊢
    obtain ⟨w1, w2, w3, w4⟩ := writeBits_in env (.int sg sz al) s1.pop.1.toInt s1.pop.2 hpo
      (by rw [hpa, hpb]; exact hfit) (by rw [hpb]; omega)
    exact ⟨w1, by rw [w2, hpa], by rw [w3, hpl], by rw [w4, hpb]⟩
  | real sz al =>
    simp only [elemEndN] at hfit ⊢
    obtain ⟨w1, w2, w3, w4⟩ := writeBits_in env (.real sz al) s1.pop.1.toInt s1.pop.2 hpo
      (by rw [hpa, hpb]; exact hfit) (by rw [hpb]; omega)
    exact ⟨w1, by rw [w2, hpa], by rw [w3, hpl], by rw [w4, hpb]⟩

theorem loop_in_bounds (L : Nat) (f : SerSt → SerSt) (g : Nat × List Leaf → Nat × List Leaf)
    (hmono : ∀ p, p.1 ≤ (g p).1)
    (hstep : ∀ s, s.buf.length = L → s.oob = false → (g (s.at_, s.leaves)).1 ≤ 8 * L →
      InBounds L s (f s) (g (s.at_, s.leaves))) :
    ∀ (n : Nat) (s : SerSt), s.buf.length = L → s.oob = false → (iterN g n (s.at_, s.leaves)).1 ≤ 8 * L →
      InBounds L s (iterN f n s) (iterN g n (s.at_, s.leaves))
  | 0, s, hlen, h0, _ => ⟨h0, rfl, rfl, hlen⟩
  | n + 1, s, hlen, h0, hfit => by
    simp only [iterN] at hfit ⊢
    have hm : ∀ (n : Nat) (p : Nat × List Leaf), p.1 ≤ (iterN g n p).1 := by
      intro n
      induction n with
      | zero => intro p; exact Nat.le_refl _
      | succ n ih => intro p; exact Nat.le_trans (hmono p) (ih _)
    have h1 := hstep s hlen h0 (Nat.le_trans (hm n _) hfit)
    have e : ((f s).at_, (f s).leaves) = g (s.at_, s.leaves) := by rw [h1.at_, h1.leaves]
    have ih := loop_in_bounds L f g hmono hstep n (f s) h1.len h1.oob (by rw [e]; exact hfit)
    rw [e] at ih
    exact ⟨ih.oob, ih.at_, ih.leaves, ih.len⟩

theorem elem_in_bounds (env : SerEnv) (L A : Nat) (hsmall : 8 * L + A ≤ 2 ^ 32) (hApos : 0 < A) :
    ∀ (e : Elem), e.align ≤ A → 0 < e.align → ∀ (s : SerSt), s.buf.length = L → s.oob = false →
      (elemEndN e (s.at_, s.leaves)).1 ≤ 8 * L →
      InBounds L s (serElem env (plainElem e) s) (elemEndN e (s.at_, s.leaves))
  | .sc sc, hA, hal, s, hlen, h0, hfit => leaf_in_bounds env L A sc s hA hal hsmall hApos hlen h0 hfit
  | .sarr n e, hA, hal, s, hlen, h0, hfit => by
    simp only [Elem.align] at hA hal
    simp only [plainElem, serElem, elemEndN] at hfit ⊢
    have hge := alignNat_ge s.at_ e.align hal
    have hm := iterN_mono e hal n (alignNat s.at_ e.align, s.leaves)
    have hat0 : (serAlign (alOp e.align) s).at_ = alignNat s.at_ e.align :=
      serAlign_alOp e.align s hal (by simp only at hm; omega)
    have hl0 := serAlign_leaves (alOp e.align) s
    have hb0 := serAlign_buf (alOp e.align) s
    have ho0 := serAlign_oob (alOp e.align) s
    have := loop_in_bounds L (serElem env (plainElem e)) (elemEndN e) (elemEndN_mono e hal)
      (fun s' hl' ho' hf' => elem_in_bounds env L A hsmall hApos e hA hal s' hl' ho' hf')
      n (serAlign (alOp e.align) s) (by rw [hb0]; exact hlen) (by rw [ho0]; exact h0)
      (by rw [hat0, hl0]; exact hfit)
    rw [hat0, hl0] at this
    exact ⟨this.oob, this.at_, this.leaves, this.len⟩

/-! ### members and roots -/

def memberEndN (pfx : String) (args : Args) (m : Member) (a : Nat) : Nat :=
  match m.ft with
  | .el e => (elemEndN e (a, args.get (pfx ++ "_" ++ m.name))).1
  | .darr ln e => (iterN (elemEndN e) (cntOf pfx args ln) (alignNat a e.align, args.get (pfx ++ "_" ++ m.name))).1
  | .uuid => a

/-- the end position of the root structure `S` serialised from `a`, in unbounded arithmetic: what a CTF reader
    computes from the metadata and the values -/
def structEndN (pfx : String) (args : Args) (S : Struct) (a : Nat) : Nat :=
  S.members.foldl (fun a m => memberEndN pfx args m a) (alignNat a S.align)

theorem memberEndN_mono (pfx : String) (args : Args) (m : Member) (hal : 0 < m.ft.align) (a : Nat) :
    a ≤ memberEndN pfx args m a := by
  obtain ⟨n, ft⟩ := m
  cases ft with
  | el e => exact elemEndN_mono e hal (a, _)
  | darr ln e =>
    simp only [memberEndN]
    exact Nat.le_trans (alignNat_ge a e.align hal) (iterN_mono e hal _ (alignNat a e.align, _))
  | uuid => exact Nat.le_refl _

theorem member_in_bounds (env : SerEnv) (L A : Nat) (hsmall : 8 * L + A ≤ 2 ^ 32) (hApos : 0 < A) (pfx : String)
    (args : Args) (m : Member) (hnu : m.ft ≠ .uuid) (hA : m.ft.align ≤ A) (hal : 0 < m.ft.align) (s : SerSt)
    (hlen : s.buf.length = L) (h0 : s.oob = false) (hfit : memberEndN pfx args m s.at_ ≤ 8 * L) :
    (serMember env pfx args (plainMember m) s).oob = false ∧
    (serMember env pfx args (plainMember m) s).at_ = memberEndN pfx args m s.at_ ∧
    (serMember env pfx args (plainMember m) s).buf.length = L := by
  obtain ⟨name, ft⟩ := m
  cases ft with
  | uuid => exact absurd rfl hnu
  | el e =>
    simp only [plainMember, serMember, memberEndN] at hfit ⊢
    have := elem_in_bounds env L A hsmall hApos e hA hal ({ s with leaves := args.get (pfx ++ "_" ++ name) } : SerSt)
      hlen h0 hfit
    exact ⟨this.oob, this.at_, this.len⟩
  | darr ln e =>
    simp only [plainMember, serMember, memberEndN, FT.align] at hfit hA hal ⊢
    have hge := alignNat_ge s.at_ e.align hal
    have hm := iterN_mono e hal (cntOf pfx args ln) (alignNat s.at_ e.align, args.get (pfx ++ "_" ++ name))
    let s0 : SerSt := { s with leaves := args.get (pfx ++ "_" ++ name) }
    have hat0 : (serAlign (alOp e.align) s0).at_ = alignNat s.at_ e.align :=
      serAlign_alOp e.align s0 hal (by simp only at hm; show s.at_ + e.align ≤ _; omega)
    have hl0 := serAlign_leaves (alOp e.align) s0
    have hb0 := serAlign_buf (alOp e.align) s0
    have ho0 := serAlign_oob (alOp e.align) s0
    have := loop_in_bounds L (serElem env (plainElem e)) (elemEndN e) (elemEndN_mono e hal)
      (fun s' hl' ho' hf' => elem_in_bounds env L A hsmall hApos e hA hal s' hl' ho' hf')
      (cntOf pfx args ln) (serAlign (alOp e.align) s0) (by rw [hb0]; exact hlen) (by rw [ho0]; exact h0)
      (by rw [hat0, hl0]; exact hfit)
    rw [hat0, hl0] at this
    exact ⟨this.oob, this.at_, this.len⟩

theorem members_in_bounds (env : SerEnv) (L A : Nat) (hsmall : 8 * L + A ≤ 2 ^ 32) (hApos : 0 < A) (pfx : String)
    (args : Args) : ∀ (ms : List Member), (∀ m ∈ ms, m.ft ≠ .uuid ∧ m.ft.align ≤ A ∧ 0 < m.ft.align) → ∀ (s : SerSt),
      s.buf.length = L → s.oob = false → ms.foldl (fun a m => memberEndN pfx args m a) s.at_ ≤ 8 * L →
      ((ms.map plainMember).foldl (fun a m => serMember env pfx args m a) s).oob = false ∧
      ((ms.map plainMember).foldl (fun a m => serMember env pfx args m a) s).at_ =
        ms.foldl (fun a m => memberEndN pfx args m a) s.at_
  | [], _, s, _, h0, _ => ⟨h0, rfl⟩
  | m :: ms, hms, s, hlen, h0, hfit => by
    simp only [List.map_cons, List.foldl_cons] at hfit ⊢
    obtain ⟨hnu, hA, hal⟩ := hms m (by simp)
    have hmono : ∀ (ms : List Member), (∀ m ∈ ms, 0 < m.ft.align) → ∀ a, a ≤ ms.foldl (fun a m => memberEndN pfx args m a) a := by
      intro ms
      induction ms with
      | nil => intro _ a; exact Nat.le_refl _
      | cons m' ms' ih =>
        intro h a
        simp only [List.foldl_cons]
        exact Nat.le_trans (memberEndN_mono pfx args m' (h m' (by simp)) a) (ih (fun x hx => h x (by simp [hx])) _)
    have h1 := member_in_bounds env L A hsmall hApos pfx args m hnu hA hal s hlen h0
      (Nat.le_trans (hmono ms (fun x hx => (hms x (by simp [hx])).2.2) _) hfit)
    have ih := members_in_bounds env L A hsmall hApos pfx args ms (fun x hx => hms x (by simp [hx])) _ h1.2.2 h1.1
      (by rw [h1.2.1]; exact hfit)
    rw [h1.2.1] at ih
    exact ih

/-- the size pass never looks at the static start bits -/
theorem sizeElem_erase : ∀ (op : EOp) (z : SizeSt), sizeElem op.erase z = sizeElem op z
  | .leaf al w, z => rfl
  | .loop al n body, z => by
    simp only [EOp.erase, sizeElem]
    have : sizeElem body.erase = sizeElem body := funext (sizeElem_erase body)
    rw [this]

theorem sizeMember_erase (pfx : String) (args : Args) (m : MOp) (a : Nat) :
    sizeMember pfx args m.erase a = sizeMember pfx args m a := by
  cases m with
  | el name e => simp only [MOp.erase, sizeMember, sizeElem_erase]
  | dloop name al ln body =>
    simp only [MOp.erase, sizeMember]
    have : sizeElem body.erase = sizeElem body := funext (sizeElem_erase body)
    rw [this]

theorem sizeRoot_erase (pfx : String) (args : Args) (r : RootOp) (a : Nat) :
    sizeRoot pfx r.erase args a = sizeRoot pfx r args a := by
  simp only [sizeRoot, RootOp.erase, List.foldl_map, sizeMember_erase]

theorem plainMember_allArg (m : Member) (hnu : m.ft ≠ .uuid) : (plainMember m).allArg = true := by
  obtain ⟨n, ft⟩ := m
  cases ft with
  | el e => exact plainElem_allArg e
  | darr ln e => exact plainElem_allArg e
  | uuid => exact absurd rfl hnu

/-- hypotheses on a user root structure -/
structure RootOK (S : Struct) : Prop where
  pow2 : ∃ j, S.align = 2 ^ j
  members : ∀ m ∈ S.members, m.ft ≠ .uuid ∧ m.ft.AlOK

theorem RootOK.align_pos {S : Struct} (h : RootOK S) : 0 < S.align := by
  obtain ⟨j, hj⟩ := h.pow2; rw [hj]; exact Nat.two_pow_pos j

theorem AlOK_pos (m : Member) (hnu : m.ft ≠ .uuid) (h : m.ft.AlOK) : 0 < m.ft.align := by
  obtain ⟨n, ft⟩ := m
  cases ft with
  | el e => obtain ⟨j, hj⟩ := h; show 0 < e.align; rw [hj]; exact Nat.two_pow_pos j
  | darr ln e => obtain ⟨j, hj⟩ := h; show 0 < e.align; rw [hj]; exact Nat.two_pow_pos j
  | uuid => exact absurd rfl hnu

/-- (1) for the tree `_OpBuilder` builds: `_er_size_*` ends where `_serialize_er_*` ends -/
theorem size_eq_ser (env : SerEnv) (pfx : String) (args : Args) (S : Struct) (hS : RootOK S) (s : SerSt) :
    sizeRoot pfx (buildRoot specNone S) args s.at_ = (serRoot env pfx (buildRoot specNone S) args s).at_ := by
  have htr := buildRoot_transparent env pfx args specNone S hS.pow2
    (fun m hm => ⟨(hS.members m hm).2, by unfold specOK; split <;> simp [specNone]⟩) s
  rw [htr, ← sizeRoot_erase, buildRoot_erase]
  exact sizeRoot_eq env pfx args _ (fun m hm => by
    simp only [List.mem_map] at hm
    obtain ⟨m0, hm0, rfl⟩ := hm
    exact plainMember_allArg m0 (hS.members m0 hm0).1) s

/-- (2) if the true end of the structure is inside the buffer, serialising it stores nothing outside the buffer and
    ends exactly there -/
theorem struct_in_bounds (env : SerEnv) (pfx : String) (args : Args) (S : Struct) (hS : RootOK S) (s : SerSt) (L : Nat)
    (hsmall : 8 * L + S.align ≤ 2 ^ 32) (hlen : s.buf.length = L) (h0 : s.oob = false)
    (hfit : structEndN pfx args S s.at_ ≤ 8 * L) :
    (serRoot env pfx (buildRoot specNone S) args s).oob = false ∧
    (serRoot env pfx (buildRoot specNone S) args s).at_ = structEndN pfx args S s.at_ := by
  have htr := buildRoot_transparent env pfx args specNone S hS.pow2
    (fun m hm => ⟨(hS.members m hm).2, by unfold specOK; split <;> simp [specNone]⟩) s
  rw [htr, buildRoot_erase]
  simp only [serRoot, structEndN] at hfit ⊢
  have hApos := hS.align_pos
  have hms : ∀ m ∈ S.members, m.ft ≠ .uuid ∧ m.ft.align ≤ S.align ∧ 0 < m.ft.align := fun m hm =>
    ⟨(hS.members m hm).1, member_align_le S m hm, AlOK_pos m (hS.members m hm).1 (hS.members m hm).2⟩
  have hmono : ∀ (ms : List Member), (∀ m ∈ ms, 0 < m.ft.align) → ∀ a, a ≤ ms.foldl (fun a m => memberEndN pfx args m a) a := by
    intro ms
    induction ms with
    | nil => intro _ a; exact Nat.le_refl _
    | cons m' ms' ih =>
      intro h a
      simp only [List.foldl_cons]
      exact Nat.le_trans (memberEndN_mono pfx args m' (h m' (by simp)) a) (ih (fun x hx => h x (by simp [hx])) _)
  have hge := alignNat_ge s.at_ S.align hApos
  have hm := hmono S.members (fun m hm => (hms m hm).2.2) (alignNat s.at_ S.align)
  have hat0 : (serAlign (alOp S.align) s).at_ = alignNat s.at_ S.align := serAlign_alOp S.align s hApos (by omega)
  have := members_in_bounds env L S.align hsmall hApos pfx args S.members hms (serAlign (alOp S.align) s)
    (by rw [serAlign_buf]; exact hlen) (by rw [serAlign_oob]; exact h0) (by rw [hat0]; exact hfit)
  rw [hat0] at this
  exact this

/-- (3) while nothing wraps, the `uint32_t` size pass computes the true end -/
theorem size_exact (pfx : String) (args : Args) (S : Struct) (hS : RootOK S) (a : Nat)
    (h : structEndN pfx args S a + S.align + 8 ≤ 2 ^ 32) :
    sizeRoot pfx (buildRoot specNone S) args a = structEndN pfx args S a := by
  -- serialise into a fictitious buffer that is large enough
  let L := (structEndN pfx args S a + 7) / 8
  let env : SerEnv := ⟨.le, false, [], 0, 0, 0, 0, 0⟩
  let s : SerSt := ⟨List.replicate L 0, a, [], [], false, []⟩
  have h1 := size_eq_ser env pfx args S hS s
  have h2 := struct_in_bounds env pfx args S hS s L (by show 8 * ((structEndN pfx args S a + 7) / 8) + S.align ≤ _; omega)
    (by simp [s]) rfl (by show structEndN pfx args S a ≤ 8 * ((structEndN pfx args S a + 7) / 8); omega)
  exact h1.trans h2.2

end BVM
