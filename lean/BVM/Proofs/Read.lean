/-
  Proofs/Read.lean — the reader of Model/Tsdl.lean against the writers of Model/Bits.lean:
  reading a field back returns the value written, reduced to the field size (C01, scalar level).
-/
import BVM.Proofs.Bits
import BVM.Model.Tsdl
namespace BVM

theorem readBitsLE_testBit (buf : Buf) : ∀ (n at_ j : Nat),
    (readBitsLE buf at_ n).testBit j = (decide (j < n) && bitLE buf (at_ + j)) := by
  intro n
  induction n with
  | zero => intro at_ j; simp [readBitsLE]
  | succ n ih =>
    intro at_ j
    simp only [readBitsLE]
    cases j with
    | zero =>
      by_cases hb : bitLE buf at_ = true
      · simp [hb, Nat.testBit_zero, Nat.add_mul_mod_self_left]
      · have hb' : bitLE buf at_ = false := by simpa using hb
        simp [hb', Nat.testBit_zero]
    | succ j =>
      have : ((if bitLE buf at_ = true then 1 else 0) + 2 * readBitsLE buf (at_ + 1) n).testBit (j + 1) =
          (readBitsLE buf (at_ + 1) n).testBit j := by
        rw [Nat.testBit_succ]
        congr 1
        split <;> omega
      rw [this, ih]
      have e : at_ + 1 + j = at_ + (j + 1) := by omega
      rw [e]
      by_cases h : j < n <;> simp [h]

theorem readBitsLE_lt (buf : Buf) : ∀ (n at_ : Nat), readBitsLE buf at_ n < 2 ^ n := by
  intro n
  induction n with
  | zero => intro at_; simp [readBitsLE]
  | succ n ih =>
    intro at_
    simp only [readBitsLE]
    have := ih (at_ + 1)
    rw [Nat.pow_succ]
    split <;> omega

/-- little endian: reading back the field just written gives the value mod 2^len -/
theorem readLE_writeLE (vt : CInt) (buf : Buf) (base start len : Nat) (v : Int)
    (hb : base + (start + len + 7) / 8 ≤ buf.length) :
    readBitsLE (bfWriteLE vt buf base start len v) (8 * base + start) len = (v % (2 : Int) ^ len).toNat := by
  obtain ⟨_, h2⟩ := bfWriteLE_spec vt buf base start len v hb
  apply Nat.eq_of_testBit_eq
  intro j
  rw [readBitsLE_testBit]
  by_cases hj : j < len
  · simp only [hj, decide_true, Bool.true_and]
    unfold bitLE
    have hq : (8 * base + start + j) % 8 < 8 := Nat.mod_lt _ (by decide)
    rw [h2 _ _ hq]
    have hin : 8 * base + start ≤ 8 * ((8 * base + start + j) / 8) + (8 * base + start + j) % 8 ∧
        8 * ((8 * base + start + j) / 8) + (8 * base + start + j) % 8 < 8 * base + start + len := by omega
    rw [if_pos hin]
    have hidx : 8 * ((8 * base + start + j) / 8) + (8 * base + start + j) % 8 - (8 * base + start) = j := by omega
    rw [hidx]
    have h := itb_emod_pow v len j
    have hpos : (0 : Int) < (2 : Int) ^ len := Int.pow_pos (by decide)
    have hnn : 0 ≤ v % (2 : Int) ^ len := Int.emod_nonneg _ (by omega)
    generalize v % (2 : Int) ^ len = w at h hnn
    cases w with
    | ofNat a =>
      have e : itb (Int.ofNat a) j = a.testBit j := rfl
      rw [e] at h
      simp only [hj, decide_true, Bool.true_and] at h
      rw [← h]; rfl
    | negSucc a => exact absurd hnn (by simp [Int.negSucc_not_nonneg])
  · simp only [hj, decide_false, Bool.false_and]
    have hlt : (v % (2 : Int) ^ len).toNat < 2 ^ len := by
      have hpos : (0 : Int) < (2 : Int) ^ len := Int.pow_pos (by decide)
      have h1 := Int.emod_lt_of_pos v hpos
      have h0 := Int.emod_nonneg v (by omega : (2 : Int) ^ len ≠ 0)
      have : ((v % (2 : Int) ^ len).toNat : Int) < ((2 ^ len : Nat) : Int) := by
        rw [Int.toNat_of_nonneg h0]; simpa using h1
      exact_mod_cast this
    exact (Nat.testBit_lt_two_pow (Nat.lt_of_lt_of_le hlt (Nat.pow_le_pow_right (by decide) (by omega)))).symm

theorem readBitsBE_lt (buf : Buf) : ∀ (n at_ : Nat), readBitsBE buf at_ n < 2 ^ n := by
  intro n
  induction n with
  | zero => intro at_; simp [readBitsBE]
  | succ n ih =>
    intro at_
    simp only [readBitsBE]
    have := ih (at_ + 1)
    rw [Nat.pow_succ]
    split <;> omega

theorem readBitsBE_testBit (buf : Buf) : ∀ (n at_ m : Nat),
    (readBitsBE buf at_ n).testBit m = (decide (m < n) && bitBE buf (at_ + (n - 1 - m))) := by
  intro n
  induction n with
  | zero => intro at_ m; simp [readBitsBE]
  | succ n ih =>
    intro at_ m
    simp only [readBitsBE]
    have hlt := readBitsBE_lt buf n (at_ + 1)
    by_cases hb : bitBE buf at_ = true
    · simp only [hb, if_true]
      have e2 : 2 ^ n + readBitsBE buf (at_ + 1) n = 2 ^ n * 1 + readBitsBE buf (at_ + 1) n := by omega
      rw [e2, Nat.two_pow_add_eq_or_of_lt hlt, Nat.mul_one, Nat.testBit_or, Nat.testBit_two_pow, ih]
      by_cases h1 : m < n
      · have e : at_ + 1 + (n - 1 - m) = at_ + (n + 1 - 1 - m) := by omega
        have : ¬ n = m := by omega
        simp [h1, e, this]; omega
      · by_cases h2 : m = n
        · subst h2; simp [hb]
        · have : ¬ n = m := fun e => h2 e.symm
          simp [h1, this]; omega
    · have hb' : bitBE buf at_ = false := by simpa using hb
      simp only [hb', Bool.false_eq_true, if_false, Nat.zero_add]
      rw [ih]
      by_cases h1 : m < n
      · have e : at_ + 1 + (n - 1 - m) = at_ + (n + 1 - 1 - m) := by omega
        simp [h1, e]; omega
      · by_cases h2 : m = n
        · subst h2; simp [hb']
        · simp [h1]; omega

/-- bits of `(v mod 2^len).toNat` are the two's-complement bits of `v` below `len` -/
theorem toNat_emod_testBit (v : Int) (len j : Nat) :
    ((v % (2 : Int) ^ len).toNat).testBit j = (decide (j < len) && itb v j) := by
  have h := itb_emod_pow v len j
  have hpos : (0 : Int) < (2 : Int) ^ len := Int.pow_pos (by decide)
  have hnn : 0 ≤ v % (2 : Int) ^ len := Int.emod_nonneg _ (by omega)
  generalize v % (2 : Int) ^ len = w at h hnn
  cases w with
  | ofNat a =>
    have e : itb (Int.ofNat a) j = a.testBit j := rfl
    rw [e] at h
    rw [← h]; rfl
  | negSucc a => exact absurd hnn (by simp [Int.negSucc_not_nonneg])

/-- big endian: reading back the field just written gives the value mod 2^len -/
theorem readBE_writeBE (vt : CInt) (buf : Buf) (base start len : Nat) (v : Int)
    (hb : base + (start + len + 7) / 8 ≤ buf.length) :
    readBitsBE (bfWriteBE vt buf base start len v) (8 * base + start) len = (v % (2 : Int) ^ len).toNat := by
  obtain ⟨_, h2⟩ := bfWriteBE_spec vt buf base start len v hb
  apply Nat.eq_of_testBit_eq
  intro m
  rw [readBitsBE_testBit, toNat_emod_testBit]
  by_cases hm : m < len
  · simp only [hm, decide_true, Bool.true_and]
    unfold bitBE
    have hq : 7 - (8 * base + start + (len - 1 - m)) % 8 < 8 := by omega
    rw [h2 _ _ hq]
    have hin : 8 * base + start ≤ 8 * ((8 * base + start + (len - 1 - m)) / 8) + 7 - (7 - (8 * base + start + (len - 1 - m)) % 8) ∧
        8 * ((8 * base + start + (len - 1 - m)) / 8) + 7 - (7 - (8 * base + start + (len - 1 - m)) % 8) < 8 * base + start + len := by omega
    rw [if_pos hin]
    congr 1
    omega
  · simp [hm]

/-- the same for both byte orders -/
theorem read_write (bo : ByteOrder) (vt : CInt) (buf : Buf) (base start len : Nat) (v : Int)
    (hb : base + (start + len + 7) / 8 ≤ buf.length) :
    readBits bo (bfWrite bo vt buf base start len v) (8 * base + start) len = (v % (2 : Int) ^ len).toNat := by
  cases bo
  · exact readLE_writeLE vt buf base start len v hb
  · exact readBE_writeBE vt buf base start len v hb

/-- frame: a read of bits that do not overlap the written field is unchanged (little endian) -/
theorem readLE_frame (vt : CInt) (buf : Buf) (base start len : Nat) (v : Int)
    (hb : base + (start + len + 7) / 8 ≤ buf.length) (at_ n : Nat)
    (hd : at_ + n ≤ 8 * base + start ∨ 8 * base + start + len ≤ at_) :
    readBitsLE (bfWriteLE vt buf base start len v) at_ n = readBitsLE buf at_ n := by
  obtain ⟨_, h2⟩ := bfWriteLE_spec vt buf base start len v hb
  apply Nat.eq_of_testBit_eq
  intro j
  rw [readBitsLE_testBit, readBitsLE_testBit]
  by_cases hj : j < n
  · simp only [hj, decide_true, Bool.true_and]
    unfold bitLE
    have hq : (at_ + j) % 8 < 8 := Nat.mod_lt _ (by decide)
    rw [h2 _ _ hq]
    have hout : ¬ (8 * base + start ≤ 8 * ((at_ + j) / 8) + (at_ + j) % 8 ∧
        8 * ((at_ + j) / 8) + (at_ + j) % 8 < 8 * base + start + len) := by omega
    rw [if_neg hout]
  · simp [hj]

theorem readBE_frame (vt : CInt) (buf : Buf) (base start len : Nat) (v : Int)
    (hb : base + (start + len + 7) / 8 ≤ buf.length) (at_ n : Nat)
    (hd : at_ + n ≤ 8 * base + start ∨ 8 * base + start + len ≤ at_) :
    readBitsBE (bfWriteBE vt buf base start len v) at_ n = readBitsBE buf at_ n := by
  obtain ⟨_, h2⟩ := bfWriteBE_spec vt buf base start len v hb
  apply Nat.eq_of_testBit_eq
  intro m
  rw [readBitsBE_testBit, readBitsBE_testBit]
  by_cases hm : m < n
  · simp only [hm, decide_true, Bool.true_and]
    unfold bitBE
    have hq : 7 - (at_ + (n - 1 - m)) % 8 < 8 := by omega
    rw [h2 _ _ hq]
    have hout : ¬ (8 * base + start ≤ 8 * ((at_ + (n - 1 - m)) / 8) + 7 - (7 - (at_ + (n - 1 - m)) % 8) ∧
        8 * ((at_ + (n - 1 - m)) / 8) + 7 - (7 - (at_ + (n - 1 - m)) % 8) < 8 * base + start + len) := by omega
    rw [if_neg hout]
  · simp [hm]

/-- the memcpy fast path read back little endian -/
theorem readLE_memcpy (buf : Buf) (base n x : Nat) (hb : base + n ≤ buf.length) :
    readBitsLE (memcpyLE n buf base x) (8 * base) (8 * n) = x % 2 ^ (8 * n) := by
  apply Nat.eq_of_testBit_eq
  intro j
  rw [readBitsLE_testBit, Nat.testBit_mod_two_pow]
  by_cases hj : j < 8 * n
  · simp only [hj, decide_true, Bool.true_and]
    unfold bitLE
    rw [memcpyLE_get n buf base x _ hb]
    have hin : base ≤ (8 * base + j) / 8 ∧ (8 * base + j) / 8 < base + n := by omega
    rw [if_pos hin, byte_of_testBit _ _ _ (Nat.mod_lt _ (by decide))]
    congr 1; omega
  · simp [hj]

/-- sign extension of the bits read is the reduction of the value to the field (signed) -/
theorem signExtend_reduce (size : Nat) (hs : 0 < size) (v : Int) :
    signExtend true size ((v % (2 : Int) ^ size).toNat) =
      (if (v % (2 : Int) ^ size) < (2 : Int) ^ (size - 1) then v % (2 : Int) ^ size else v % (2 : Int) ^ size - (2 : Int) ^ size) := by
  have hpos : (0 : Int) < (2 : Int) ^ size := Int.pow_pos (by decide)
  have hnn : 0 ≤ v % (2 : Int) ^ size := Int.emod_nonneg _ (by omega)
  have hlt : v % (2 : Int) ^ size < (2 : Int) ^ size := Int.emod_lt_of_pos v hpos
  unfold signExtend
  generalize hw : v % (2 : Int) ^ size = w at hnn hlt
  have hcast : ((w.toNat : Nat) : Int) = w := Int.toNat_of_nonneg hnn
  have hwn : w.toNat < 2 ^ size := by
    have : ((w.toNat : Nat) : Int) < ((2 ^ size : Nat) : Int) := by rw [hcast]; simpa using hlt
    exact_mod_cast this
  -- top bit set iff w ≥ 2^(size-1)
  have htop : w.toNat.testBit (size - 1) = decide (2 ^ (size - 1) ≤ w.toNat) := by
    have e : size = (size - 1) + 1 := by omega
    rw [Nat.testBit_eq_decide_div_mod_eq]
    have h2 : w.toNat < 2 ^ (size - 1) * 2 := by
      have : 2 ^ (size - 1) * 2 = 2 ^ size := by rw [← Nat.pow_succ]; congr 1; omega
      rw [this]; exact hwn
    by_cases hge : 2 ^ (size - 1) ≤ w.toNat
    · have : w.toNat / 2 ^ (size - 1) = 1 := by
        apply Nat.div_eq_of_lt_le <;> omega
      simp [hge, this]
    · have : w.toNat / 2 ^ (size - 1) = 0 := Nat.div_eq_of_lt (by omega)
      simp [hge, this]
  simp only [Bool.true_and, hs, decide_true, htop]
  have hp : ((2 ^ (size - 1) : Nat) : Int) = (2 : Int) ^ (size - 1) := by simp
  by_cases hge : 2 ^ (size - 1) ≤ w.toNat
  · have : ¬ w < (2 : Int) ^ (size - 1) := by
      rw [← hp, ← hcast]; omega
    simp [hge, this, hcast]
  · have : w < (2 : Int) ^ (size - 1) := by
      rw [← hp, ← hcast]; omega
    simp [hge, this, hcast]

end BVM
