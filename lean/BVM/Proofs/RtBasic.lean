/-
  Proofs/RtBasic.lean — log-extension calculus for the runtime model: every function of
  Model/Rt.lean only prepends events to the log.
-/
import BVM.Model.Rt
namespace BVM

/-- `s'` extends the log of `s` by events that all satisfy `P` -/
def Ext (P : Ev → Prop) (s s' : St) : Prop := ∃ new, s'.log = new ++ s.log ∧ ∀ e ∈ new, P e

theorem Ext.refl (P : Ev → Prop) (s : St) : Ext P s s := ⟨[], rfl, by simp⟩

theorem Ext.of_log_eq {P : Ev → Prop} {s s' : St} (h : s'.log = s.log) : Ext P s s' :=
  ⟨[], by simpa using h, by simp⟩

theorem Ext.trans {P : Ev → Prop} {s₁ s₂ s₃ : St} (h₁ : Ext P s₁ s₂) (h₂ : Ext P s₂ s₃) : Ext P s₁ s₃ := by
  obtain ⟨n₁, e₁, p₁⟩ := h₁
  obtain ⟨n₂, e₂, p₂⟩ := h₂
  refine ⟨n₂ ++ n₁, by rw [e₂, e₁, List.append_assoc], ?_⟩
  intro e he
  rcases List.mem_append.mp he with h | h
  · exact p₂ e h
  · exact p₁ e h

theorem Ext.ev {P : Ev → Prop} (s : St) (e : Ev) (h : P e) : Ext P s (s.ev e) :=
  ⟨[e], rfl, by simpa using h⟩

theorem Ext.mono {P Q : Ev → Prop} {s s' : St} (h : Ext P s s') (hpq : ∀ e, P e → Q e) : Ext Q s s' := by
  obtain ⟨n, e, p⟩ := h
  exact ⟨n, e, fun x hx => hpq x (p x hx)⟩

/-- all events of the final log satisfy `P` if those of the initial log do -/
theorem Ext.all {P : Ev → Prop} {s s' : St} (h : Ext P s s') (h0 : ∀ e ∈ s.log, P e) : ∀ e ∈ s'.log, P e := by
  obtain ⟨n, e, p⟩ := h
  intro x hx
  rw [e] at hx
  rcases List.mem_append.mp hx with h | h
  · exact p x h
  · exact h0 x h

@[simp] theorem St.ev_c (s : St) (e : Ev) : (s.ev e).c = s.c := rfl
@[simp] theorem St.ev_buf (s : St) (e : Ev) : (s.ev e).buf = s.buf := rfl
@[simp] theorem St.ev_p (s : St) (e : Ev) : (s.ev e).p = s.p := rfl
@[simp] theorem St.ev_halted (s : St) (e : Ev) : (s.ev e).halted = s.halted := rfl
@[simp] theorem St.ev_log (s : St) (e : Ev) : (s.ev e).log = e :: s.log := rfl

end BVM
