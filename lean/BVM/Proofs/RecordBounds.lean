/-
  Proofs/RecordBounds.lean — a whole event record (header, common context, specific context, payload): the size the
  tracer computes (`_er_size_*`) is the size it writes (`_serialize_er_*`), and a record whose end is inside the packet
  buffer is written without any store outside it (C02, tracing-call level).
-/
import BVM.Proofs.SizeSerSpec
import BVM.Model.Rt
namespace BVM

def optEndS (spec : String → Option WSrc) (pfx : String) (args : Args) (S : Option Struct) (a : Nat) : Nat :=
  match S with
  | some S => structEndS spec pfx args S a
  | none => a

/-- the end of the record of type `e` written from `a`, in unbounded arithmetic -/
def recordEndN (d : DST) (e : ERT) (args : Args) (a : Nat) : Nat :=
  optEndS specNone "p" args e.p (optEndS specNone "sc" args e.sc (optEndS specNone "cc" args d.ercc
    (structEndS specERH "h" [] d.erhStruct a)))

structure OptRootOK (spec : String → Option WSrc) (A : Nat) (S : Option Struct) : Prop where
  ok : ∀ S', S = some S' → RootOKS spec S' ∧ S'.align ≤ A ∧ ∀ m ∈ S'.members, m.ft ≠ .uuid

/-- hypotheses on the four roots of a record; `A` bounds their alignments -/
structure RecordOK (A : Nat) (d : DST) (e : ERT) : Prop where
  h : OptRootOK specERH A (some d.erhStruct)
  cc : OptRootOK specNone A d.ercc
  sc : OptRootOK specNone A e.sc
  p : OptRootOK specNone A e.p

theorem structEndS_mono (spec : String → Option WSrc) (pfx : String) (args : Args) (S : Struct) (hS : RootOKS spec S)
    (a : Nat) : a ≤ structEndS spec pfx args S a := by
  have hApos : 0 < S.align := by obtain ⟨j, hj⟩ := hS.pow2; rw [hj]; exact Nat.two_pow_pos j
  exact Nat.le_trans (alignNat_ge a S.align hApos)
    (memberEndS_fold_mono spec pfx args S.members (fun m hm => AlOK_pos' m (hS.members m hm).1) _)

theorem optEndS_mono (spec : String → Option WSrc) (A : Nat) (pfx : String) (args : Args) (S : Option Struct)
    (hS : OptRootOK spec A S) (a : Nat) : a ≤ optEndS spec pfx args S a := by
  cases S with
  | none => exact Nat.le_refl _
  | some S' => exact structEndS_mono spec pfx args S' (hS.ok S' rfl).1 a

/-- one optional root: serialised in bounds, ending at its true end -/
theorem optRoot_in_bounds (env : SerEnv) (spec : String → Option WSrc) (A : Nat) (pfx : String) (args : Args)
    (S : Option Struct) (hS : OptRootOK spec A S) (s : SerSt) (L : Nat) (hsmall : 8 * L + A ≤ 2 ^ 32)
    (hlen : s.buf.length = L) (h0 : s.oob = false) (hfit : optEndS spec pfx args S s.at_ ≤ 8 * L) :
    let s' := match S.map (buildRoot spec) with | some r => serRoot env pfx r args s | none => s
    s'.oob = false ∧ s'.at_ = optEndS spec pfx args S s.at_ ∧ s'.buf.length = L := by
  cases S with
  | none => exact ⟨h0, rfl, hlen⟩
  | some S' =>
    obtain ⟨h1, h2, _⟩ := hS.ok S' rfl
    exact root_in_bounds env spec pfx args S' h1 s L (by omega) hlen h0 hfit

theorem record_in_bounds (env : SerEnv) (A : Nat) (d : DST) (e : ERT) (hok : RecordOK A d e) (args : Args) (s : SerSt)
    (L : Nat) (hsmall : 8 * L + A ≤ 2 ^ 32) (hlen : s.buf.length = L) (h0 : s.oob = false)
    (hfit : recordEndN d e args s.at_ ≤ 8 * L) :
    (serRecord env d e args s).oob = false ∧ (serRecord env d e args s).at_ = recordEndN d e args s.at_ ∧
    (serRecord env d e args s).buf.length = L := by
  simp only [recordEndN] at hfit
  -- ends of the four roots, and their order
  have m3 := optEndS_mono specNone A "p" args e.p hok.p
    (optEndS specNone "sc" args e.sc (optEndS specNone "cc" args d.ercc (structEndS specERH "h" [] d.erhStruct s.at_)))
  have m2 := optEndS_mono specNone A "sc" args e.sc hok.sc
    (optEndS specNone "cc" args d.ercc (structEndS specERH "h" [] d.erhStruct s.at_))
  have m1 := optEndS_mono specNone A "cc" args d.ercc hok.cc (structEndS specERH "h" [] d.erhStruct s.at_)
  obtain ⟨a1, a2, a3⟩ := optRoot_in_bounds env specERH A "h" [] (some d.erhStruct) hok.h s L hsmall hlen h0
    (by show structEndS specERH "h" [] d.erhStruct s.at_ ≤ _; omega)
  simp only [Option.map_some, optEndS] at a1 a2 a3
  obtain ⟨b1, b2, b3⟩ := optRoot_in_bounds env specNone A "cc" args d.ercc hok.cc _ L hsmall a3 a1
    (by rw [a2]; show optEndS specNone "cc" args d.ercc (structEndS specERH "h" [] d.erhStruct s.at_) ≤ _; omega)
  obtain ⟨c1, c2, c3⟩ := optRoot_in_bounds env specNone A "sc" args e.sc hok.sc _ L hsmall b3 b1
    (by rw [b2, a2]; omega)
  obtain ⟨d1, d2, d3⟩ := optRoot_in_bounds env specNone A "p" args e.p hok.p _ L hsmall c3 c1
    (by rw [c2, b2, a2]; exact hfit)
  simp only [serRecord, DST.erhOp, DST.erccOp, ERT.scOp, ERT.pOp, recordEndN]
  rw [c2, b2, a2] at d2
  exact ⟨d1, d2, d3⟩

/-! ### the size the tracer computes -/

def optSize (spec : String → Option WSrc) (pfx : String) (args : Args) (S : Option Struct) (a : Nat) : Nat :=
  match S with
  | some S => sizeRoot pfx (buildRoot spec S) args a
  | none => a

def optSer (env : SerEnv) (spec : String → Option WSrc) (pfx : String) (args : Args) (S : Option Struct) (s : SerSt) : SerSt :=
  match S with
  | some S => serRoot env pfx (buildRoot spec S) args s
  | none => s

theorem erSizeAt_opt (d : DST) (e : ERT) (args : Args) (a : Nat) :
    erSizeAt d e args a = subU32 (optSize specNone "p" args e.p (optSize specNone "sc" args e.sc
      (optSize specNone "cc" args d.ercc (sizeRoot "h" (buildRoot specERH d.erhStruct) [] a)))) a := by
  simp only [erSizeAt, DST.erhOp, DST.erccOp, ERT.scOp, ERT.pOp, optSize]
  cases d.ercc <;> cases e.sc <;> cases e.p <;> rfl

theorem serRecord_opt (env : SerEnv) (d : DST) (e : ERT) (args : Args) (s : SerSt) :
    serRecord env d e args s = optSer env specNone "p" args e.p (optSer env specNone "sc" args e.sc
      (optSer env specNone "cc" args d.ercc (serRoot env "h" (buildRoot specERH d.erhStruct) [] s))) := by
  simp only [serRecord, DST.erhOp, DST.erccOp, ERT.scOp, ERT.pOp, optSer]
  cases d.ercc <;> cases e.sc <;> cases e.p <;> rfl

theorem optSize_eq (env : SerEnv) (spec : String → Option WSrc) (A : Nat) (pfx : String) (args : Args)
    (S : Option Struct) (hS : OptRootOK spec A S) (s : SerSt) :
    optSize spec pfx args S s.at_ = (optSer env spec pfx args S s).at_ := by
  cases S with
  | none => rfl
  | some S' =>
    obtain ⟨h1, _, h3⟩ := hS.ok S' rfl
    exact size_eq_ser_S env spec pfx args S' h1 h3 s

/-- `_er_size_*` computes (in `uint32_t` arithmetic) the distance `_serialize_er_*` advances -/
theorem erSizeAt_eq_ser (env : SerEnv) (A : Nat) (d : DST) (e : ERT) (hok : RecordOK A d e) (args : Args) (s : SerSt) :
    erSizeAt d e args s.at_ = subU32 (serRecord env d e args s).at_ s.at_ := by
  rw [erSizeAt_opt, serRecord_opt]
  obtain ⟨hh, _, hhu⟩ := hok.h.ok _ rfl
  rw [size_eq_ser_S env specERH "h" [] d.erhStruct hh hhu s,
    optSize_eq env specNone A "cc" args d.ercc hok.cc, optSize_eq env specNone A "sc" args e.sc hok.sc,
    optSize_eq env specNone A "p" args e.p hok.p]

/-- while the record's true end does not wrap `uint32_t`, `_er_size_*` is its true size -/
theorem erSizeAt_exact (A : Nat) (d : DST) (e : ERT) (hok : RecordOK A d e) (args : Args) (a : Nat)
    (hnw : recordEndN d e args a + A + 8 ≤ 2 ^ 32) (hle : a ≤ recordEndN d e args a) :
    erSizeAt d e args a = recordEndN d e args a - a := by
  let L := (recordEndN d e args a + 7) / 8
  let env : SerEnv := ⟨.le, false, [], 0, 0, 0, 0, 0⟩
  let s : SerSt := ⟨List.replicate L 0, a, [], [], false, []⟩
  have h1 := erSizeAt_eq_ser env A d e hok args s
  have h2 := record_in_bounds env A d e hok args s L
    (by show 8 * ((recordEndN d e args a + 7) / 8) + A ≤ _; omega) (by simp [s]) rfl
    (by show recordEndN d e args a ≤ 8 * ((recordEndN d e args a + 7) / 8); omega)
  rw [h1, h2.2.1]
  show subU32 (recordEndN d e args a) a = _
  unfold subU32
  rw [if_pos hle]

/-- **the tracer's own check is sufficient**: when `_er_size_*`, computed at the position where the record will be
    written, is at most the room left in the packet (`packet_size - at`), and the packet size is the buffer size, the
    record is serialised without any store outside the buffer, and `at` stays inside the packet -/
theorem checked_record_in_bounds (env : SerEnv) (A : Nat) (d : DST) (e : ERT) (hok : RecordOK A d e) (args : Args) (s : SerSt)
    (L pktSize : Nat) (hps : pktSize = 8 * L) (hsmall : 8 * L + A ≤ 2 ^ 32) (hlen : s.buf.length = L) (h0 : s.oob = false)
    (hat : s.at_ ≤ pktSize) (hle : s.at_ ≤ recordEndN d e args s.at_)
    (hnw : recordEndN d e args s.at_ + A + 8 ≤ 2 ^ 32)
    (hfit : erSizeAt d e args s.at_ ≤ subU32 pktSize s.at_) :
    (serRecord env d e args s).oob = false ∧ (serRecord env d e args s).at_ ≤ pktSize ∧
    (serRecord env d e args s).buf.length = L := by
  rw [erSizeAt_exact A d e hok args s.at_ hnw hle] at hfit
  have hroom : subU32 pktSize s.at_ = pktSize - s.at_ := by unfold subU32; rw [if_pos hat]
  rw [hroom] at hfit
  have hin := record_in_bounds env A d e hok args s L hsmall hlen h0 (by omega)
  exact ⟨hin.1, by rw [hin.2.1]; omega, hin.2.2⟩

theorem recordEndN_ge (A : Nat) (d : DST) (e : ERT) (hok : RecordOK A d e) (args : Args) (a : Nat) :
    a ≤ recordEndN d e args a := by
  simp only [recordEndN]
  have m0 := structEndS_mono specERH "h" [] d.erhStruct (hok.h.ok _ rfl).1 a
  have m1 := optEndS_mono specNone A "cc" args d.ercc hok.cc (structEndS specERH "h" [] d.erhStruct a)
  have m2 := optEndS_mono specNone A "sc" args e.sc hok.sc
    (optEndS specNone "cc" args d.ercc (structEndS specERH "h" [] d.erhStruct a))
  have m3 := optEndS_mono specNone A "p" args e.p hok.p
    (optEndS specNone "sc" args e.sc (optEndS specNone "cc" args d.ercc (structEndS specERH "h" [] d.erhStruct a)))
  omega

/-! ### inside the tracing function -/

/-- what the tracing function knows about the context when it serialises: the packet is the whole buffer, the position
    is inside it, nothing can wrap -/
structure PosOK (A : Nat) (s : St) : Prop where
  notHalted : s.halted = false
  pkt : s.c.packetSize = 8 * s.buf.length
  at_ : s.c.at_ ≤ s.c.packetSize
  small : 8 * s.buf.length + A ≤ 2 ^ 32

theorem runSer_ok (f : SerSt → SerSt) (s : St) (hh : s.halted = false)
    (h : (f { buf := s.buf, at_ := s.c.at_, saved := s.c.saved, stores := [], oob := false, leaves := [] }).oob = false) :
    (runSer f s).halted = false ∧
    (runSer f s).c.at_ = (f { buf := s.buf, at_ := s.c.at_, saved := s.c.saved, stores := [], oob := false, leaves := [] }).at_ ∧
    (runSer f s).buf = (f { buf := s.buf, at_ := s.c.at_, saved := s.c.saved, stores := [], oob := false, leaves := [] }).buf ∧
    (runSer f s).c.packetSize = s.c.packetSize := by
  unfold runSer installSer
  simp only [h, Bool.false_eq_true, if_false]
  exact ⟨hh, rfl, rfl, rfl⟩

/-- serialising the record after the post-reservation fit check passed -/
theorem traceWrite_ser_in_bounds (cfg : Cfg) (A : Nat) (d : DST) (e : ERT) (hok : RecordOK A d e) (args : Args) (s : St)
    (hp : PosOK A s) (hnw : recordEndN d e args s.c.at_ + A + 8 ≤ 2 ^ 32)
    (hfit : erSizeAt d e args s.c.at_ ≤ s.c.room s.c.at_) :
    let s' := runSer (serRecord (serEnvOf cfg d e.id s.c.curLastEventTs s.c) d e args) s
    s'.halted = false ∧ s'.c.at_ ≤ s'.c.packetSize ∧ s'.c.packetSize = 8 * s'.buf.length ∧
    s'.c.packetSize = s.c.packetSize := by
  have hin := checked_record_in_bounds (serEnvOf cfg d e.id s.c.curLastEventTs s.c) A d e hok args
    { buf := s.buf, at_ := s.c.at_, saved := s.c.saved, stores := [], oob := false, leaves := [] }
    s.buf.length s.c.packetSize hp.pkt hp.small rfl rfl hp.at_ (recordEndN_ge A d e hok args s.c.at_) hnw hfit
  obtain ⟨r1, r2, r3, r4⟩ := runSer_ok _ s hp.notHalted hin.1
  refine ⟨r1, by rw [r2, r4]; exact hin.2.1, by rw [r4, r3, hin.2.2]; exact hp.pkt, r4⟩

end BVM
