/-
  Proofs/Expand.lean — lemmas about the expansion stages (Model/Expand.lean).
-/
import BVM.Model.Expand
import BVM.Proofs.Patch
namespace BVM

/-! ### search order -/

theorem findInDirs_shift (p : String) (ds : List (List (String × Y))) (i : Nat) :
    findInDirs p ds (i + 1) = (findInDirs p ds i).map fun r => (r.1 + 1, r.2) := by
  induction ds generalizing i with
  | nil => rfl
  | cons d r ih =>
    simp only [findInDirs]
    cases kvGet p d <;> simp [ih]

/-- the file found is the one of the first directory, in the given order, that has it -/
theorem findInDirs_first (p : String) (pre : List (List (String × Y))) (d : List (String × Y))
    (post : List (List (String × Y))) (y : Y)
    (hpre : ∀ d' ∈ pre, kvGet p d' = none) (hd : kvGet p d = some y) :
    findInDirs p (pre ++ d :: post) 0 = some (pre.length, y) := by
  induction pre with
  | nil => simp [findInDirs, hd]
  | cons d0 r ih =>
    have h0 : kvGet p d0 = none := hpre d0 (by simp)
    have hr : ∀ d' ∈ r, kvGet p d' = none := fun d' h => hpre d' (by simp [h])
    simp only [List.cons_append, findInDirs, h0]
    rw [findInDirs_shift, ih hr]
    simp

theorem findInDirs_none (p : String) (ds : List (List (String × Y))) (i : Nat)
    (h : ∀ d ∈ ds, kvGet p d = none) : findInDirs p ds i = none := by
  induction ds generalizing i with
  | nil => rfl
  | cons d r ih =>
    simp only [findInDirs, h d (by simp)]
    exact ih _ (fun d' hd => h d' (by simp [hd]))

/-! ### the loop over the inclusion paths -/

/-- the effective nodes of the listed files, in order (missing files are skipped when the parser
    ignores them) -/
def loadBases (rec : Stack → Y → FR Y) (W : World) (stack : Stack) : List String → FR (List Y)
  | [] => .ok []
  | p :: r =>
    match findInDirs p W.dirs 0 with
    | none => if W.ignoreNotFound then loadBases rec W stack r else .error (.includeNotFound p)
    | some (di, content) =>
      if stack.contains (di, p) then .error (.includeCycle p) else do
      let ov ← rec ((di, p) :: stack) content
      let rest ← loadBases rec W stack r
      .ok (ov :: rest)

/-- bases applied in the order listed -/
def foldBases (v3 : Bool) (acc : Option Y) (es : List Y) : Option Y :=
  es.foldl (fun a e => some (match a with | none => e | some b => patchNode v3 b e)) acc

theorem foldlM_inclStep (rec : Stack → Y → FR Y) (W : World) (stack : Stack) (v3 : Bool) (paths : List String) :
    ∀ acc : Option Y, paths.foldlM (inclStep rec W stack v3) acc =
      (loadBases rec W stack paths).map (foldBases v3 acc) := by
  induction paths with
  | nil => intro acc; simp [loadBases, foldBases, Except.map, pure, Except.pure]
  | cons p r ih =>
    intro acc
    simp only [List.foldlM_cons, loadBases, inclStep]
    cases hf : findInDirs p W.dirs 0 with
    | none =>
      simp only
      cases W.ignoreNotFound
      · simp [bind, Except.bind, Except.map]
      · simp only [if_true]
        simp only [bind, Except.bind]
        exact ih acc
    | some fc =>
      obtain ⟨di, content⟩ := fc
      simp only
      by_cases hc : stack.contains (di, p) = true
      · simp only [hc, if_true]; simp [bind, Except.bind, Except.map]
      · simp only [hc, Bool.false_eq_true, if_false]
        cases hr : rec ((di, p) :: stack) content with
        | error e => simp [bind, Except.bind, Except.map]
        | ok ov =>
          simp only [bind, Except.bind]
          cases acc with
          | none =>
            simp only
            rw [ih]
            cases loadBases rec W stack r <;> simp [Except.map, foldBases]
          | some b =>
            simp only
            rw [ih]
            cases loadBases rec W stack r <;> simp [Except.map, foldBases]

/-! ### aliases -/

theorem resolveVal_alias_step (v3 : Bool) (fuel : Nat) (st : ASt) (a : String) (av av' : Y) (st2 : ASt)
    (hget : kvGet a st.aliases = some av) (hres : a ∉ st.resolved)
    (hset : a ∉ st.aset)
    (hrec : resolveVal v3 fuel { st with aset := a :: st.aset } av = .ok (av', st2)) :
    resolveVal v3 (fuel + 1) st (.str a) =
      .ok (av', { st2 with aliases := kvSet a av' st2.aliases, resolved := a :: st2.resolved }) := by
  simp [resolveVal, hget, hres, hset, hrec, bind, Except.bind]

/-- an alias that is being resolved and is met again: configuration error -/
theorem resolveVal_cycle (v3 : Bool) (fuel : Nat) (st : ASt) (a : String) (av : Y)
    (hget : kvGet a st.aliases = some av) (hres : a ∉ st.resolved)
    (hset : a ∈ st.aset) :
    resolveVal v3 (fuel + 1) st (.str a) = .error (.aliasCycle a) := by
  simp [resolveVal, hget, hres, hset]

theorem resolveVal_unknown (v3 : Bool) (fuel : Nat) (st : ASt) (a : String)
    (hget : kvGet a st.aliases = none) :
    resolveVal v3 (fuel + 1) st (.str a) = .error (.unknownAlias a) := by
  simp [resolveVal, hget]

/-- an alias already resolved is replaced by (a copy of) its resolved node, whatever the alias set -/
theorem resolveVal_resolved (v3 : Bool) (fuel : Nat) (st : ASt) (a : String) (av : Y)
    (hget : kvGet a st.aliases = some av) (hres : a ∈ st.resolved) :
    resolveVal v3 (fuel + 1) st (.str a) = .ok (av, st) := by
  simp [resolveVal, hget, hres]

/-! ### property normalisation -/

theorem normClass_idem (s : String) : normClass (normClass s) = normClass s := by
  unfold normClass
  split <;> first | rfl | (split <;> first | rfl | simp_all)

theorem normBase_idem (s : String) : normBase (normBase s) = normBase s := by
  unfold normBase
  split <;> first | rfl | (split <;> first | rfl | simp_all)

theorem normScalarProp_idem (k : String) (y : Y) : normScalarProp k (normScalarProp k y) = normScalarProp k y := by
  cases y <;> simp [normScalarProp]
  rename_i s
  by_cases h1 : k = "class"
  · simp [h1, normScalarProp, normClass_idem]
  · by_cases h2 : k = "preferred-display-base"
    · simp [h1, h2, normScalarProp, normBase_idem]
    · simp [h1, h2, normScalarProp]

theorem normScalarProp_null_iff (k : String) (y : Y) : normScalarProp k y = .null ↔ y = .null := by
  cases y <;> simp [normScalarProp]
  rename_i s
  split <;> (try split) <;> simp

mutual
theorem normProps_ne_null : ∀ y : Y, y ≠ .null → normProps y ≠ .null
  | .null, h => absurd rfl h
  | .bool _, _ => by simp [normProps]
  | .int _, _ => by simp [normProps]
  | .float _, _ => by simp [normProps]
  | .str _, _ => by simp [normProps]
  | .seq _, _ => by simp [normProps]
  | .map _, _ => by simp [normProps]
end

mutual
theorem normProps_idem : ∀ y : Y, normProps (normProps y) = normProps y
  | .null => by simp [normProps]
  | .bool _ => by simp [normProps]
  | .int _ => by simp [normProps]
  | .float _ => by simp [normProps]
  | .str _ => by simp [normProps]
  | .seq xs => by simp [normProps]; exact normPropsL_idem xs
  | .map m => by simp [normProps]; exact normPropsM_idem m
theorem normPropsM_idem : ∀ m : KVs, normPropsM (normPropsM m) = normPropsM m
  | [] => by simp [normPropsM]
  | (k, v) :: r => by
    cases v with
    | null => simp [normPropsM]; exact normPropsM_idem r
    | bool b => simp [normPropsM, normProps, normScalarProp]; exact normPropsM_idem r
    | int b => simp [normPropsM, normProps, normScalarProp]; exact normPropsM_idem r
    | float b => simp [normPropsM, normProps, normScalarProp]; exact normPropsM_idem r
    | str s =>
      have h : ∃ s', normScalarProp k (.str s) = .str s' := by
        simp only [normScalarProp]; split <;> (try split) <;> exact ⟨_, rfl⟩
      obtain ⟨s', hs'⟩ := h
      have h2 := normScalarProp_idem k (.str s)
      simp only [normPropsM, normProps]
      rw [hs'] at h2 ⊢
      simp only [normPropsM, normProps, h2]
      rw [normPropsM_idem r]
    | seq xs =>
      simp only [normPropsM, normProps, normScalarProp]
      rw [normPropsL_idem xs, normPropsM_idem r]
    | map m =>
      simp only [normPropsM, normProps, normScalarProp]
      rw [normPropsM_idem m, normPropsM_idem r]
theorem normPropsL_idem : ∀ xs : List Y, normPropsL (normPropsL xs) = normPropsL xs
  | [] => by simp [normPropsL]
  | x :: r => by simp [normPropsL]; exact ⟨normProps_idem x, normPropsL_idem r⟩
end

/-- no `null`-valued property is left at the top level of a normalised mapping -/
theorem normPropsM_no_null (k : String) : ∀ m : KVs, kvGet k (normPropsM m) ≠ some .null
  | [] => by simp [normPropsM]
  | (k', v) :: r => by
    cases v with
    | null => simp only [normPropsM]; exact normPropsM_no_null k r
    | bool b => simp only [normPropsM, kvGet_cons]; split <;> simp [normProps, normScalarProp]; exact normPropsM_no_null k r
    | int b => simp only [normPropsM, kvGet_cons]; split <;> simp [normProps, normScalarProp]; exact normPropsM_no_null k r
    | float b => simp only [normPropsM, kvGet_cons]; split <;> simp [normProps, normScalarProp]; exact normPropsM_no_null k r
    | str s =>
      simp only [normPropsM, kvGet_cons]
      split
      · intro h
        have := (normScalarProp_null_iff k' (normProps (.str s))).mp (by simpa using h)
        simp [normProps] at this
      · exact normPropsM_no_null k r
    | seq xs => simp only [normPropsM, kvGet_cons]; split <;> simp [normProps, normScalarProp]; exact normPropsM_no_null k r
    | map m => simp only [normPropsM, kvGet_cons]; split <;> simp [normProps, normScalarProp]; exact normPropsM_no_null k r

theorem kvKeys_normPropsM_subset (k : String) : ∀ m : KVs, k ∈ kvKeys (normPropsM m) → k ∈ kvKeys m
  | [], h => by simp [normPropsM, kvKeys] at h
  | (k', v) :: r, h => by
    have ih := kvKeys_normPropsM_subset k r
    have hk : kvKeys ((k', v) :: r) = k' :: kvKeys r := rfl
    rw [hk]
    cases v with
    | null => simp only [normPropsM] at h; exact List.mem_cons_of_mem _ (ih h)
    | bool b =>
      simp only [normPropsM] at h
      have hk2 : ∀ x, kvKeys ((k', x) :: normPropsM r) = k' :: kvKeys (normPropsM r) := fun _ => rfl
      rw [hk2] at h
      rcases List.mem_cons.mp h with h | h
      · exact h ▸ List.mem_cons_self
      · exact List.mem_cons_of_mem _ (ih h)
    | int b =>
      simp only [normPropsM] at h
      have hk2 : ∀ x, kvKeys ((k', x) :: normPropsM r) = k' :: kvKeys (normPropsM r) := fun _ => rfl
      rw [hk2] at h
      rcases List.mem_cons.mp h with h | h
      · exact h ▸ List.mem_cons_self
      · exact List.mem_cons_of_mem _ (ih h)
    | float b =>
      simp only [normPropsM] at h
      have hk2 : ∀ x, kvKeys ((k', x) :: normPropsM r) = k' :: kvKeys (normPropsM r) := fun _ => rfl
      rw [hk2] at h
      rcases List.mem_cons.mp h with h | h
      · exact h ▸ List.mem_cons_self
      · exact List.mem_cons_of_mem _ (ih h)
    | str b =>
      simp only [normPropsM] at h
      have hk2 : ∀ x, kvKeys ((k', x) :: normPropsM r) = k' :: kvKeys (normPropsM r) := fun _ => rfl
      rw [hk2] at h
      rcases List.mem_cons.mp h with h | h
      · exact h ▸ List.mem_cons_self
      · exact List.mem_cons_of_mem _ (ih h)
    | seq b =>
      simp only [normPropsM] at h
      have hk2 : ∀ x, kvKeys ((k', x) :: normPropsM r) = k' :: kvKeys (normPropsM r) := fun _ => rfl
      rw [hk2] at h
      rcases List.mem_cons.mp h with h | h
      · exact h ▸ List.mem_cons_self
      · exact List.mem_cons_of_mem _ (ih h)
    | map b =>
      simp only [normPropsM] at h
      have hk2 : ∀ x, kvKeys ((k', x) :: normPropsM r) = k' :: kvKeys (normPropsM r) := fun _ => rfl
      rw [hk2] at h
      rcases List.mem_cons.mp h with h | h
      · exact h ▸ List.mem_cons_self
      · exact List.mem_cons_of_mem _ (ih h)

/-- a property reset with `null` is absent after normalisation (keys of a loaded mapping are distinct) -/
theorem normPropsM_null_removed (k : String) : ∀ m : KVs, (kvKeys m).Nodup → kvGet k m = some .null →
    kvGet k (normPropsM m) = none
  | [], _, h => by simp at h
  | (k', v) :: r, hnd, h => by
    have hnd' : (kvKeys r).Nodup := by simp [kvKeys] at hnd ⊢; exact hnd.2
    have hk' : k' ∉ kvKeys r := by simp [kvKeys] at hnd ⊢; exact hnd.1
    by_cases hk : k' = k
    · subst hk
      simp at h
      subst h
      simp only [normPropsM]
      apply kvGet_none_iff.mpr
      intro hin
      exact hk' (kvKeys_normPropsM_subset k' r hin)
    · simp only [kvGet_cons, hk, if_false] at h
      have ih := normPropsM_null_removed k r hnd' h
      cases v <;> simp [normPropsM, kvGet_cons, hk, ih]

end BVM

namespace BVM

/-! ### decidable outcomes (for closed examples) -/

def FR.isOkWith {α : Type} [DecidableEq α] (r : FR α) (x : α) : Bool :=
  match r with | .ok y => decide (y = x) | .error _ => false

def FR.isErr {α : Type} (r : FR α) (e : FErr) : Bool :=
  match r with | .ok _ => false | .error e' => decide (e' = e)

theorem FR.isOkWith_iff {α : Type} [DecidableEq α] (r : FR α) (x : α) : r.isOkWith x = true ↔ r = .ok x := by
  cases r <;> simp [FR.isOkWith]

theorem FR.isErr_iff {α : Type} (r : FR α) (e : FErr) : r.isErr e = true ↔ r = .error e := by
  cases r <;> simp [FR.isErr]

end BVM
