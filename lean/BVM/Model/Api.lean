/-
  Model/Api.lean — the public API as barectf/cgen.py and templates/c/barectf.h.j2 generate it:
  C types (`_ft_c_type`), prototype parameters (`_proto_params_str`, `_open_func_params_str`,
  `_trace_func_params_str`, func-proto-params.j2), external symbol names, file names, the shorthand
  macros of the default data stream type; numeric IDs (config.py: `sorted(..., key=name)` + enumerate).
-/
import BVM.Model.Cfg
namespace BVM

/-- code-generation options -/
structure GenOpts where
  identPrefix : String := "barectf_"
  filePrefix : String := "barectf"
  defaultDst : Option String := none
  defPrefixMacro : Bool := false        -- header option identifier-prefix-definition
  defDstMacro : Bool := false           -- header option default-data-stream-type-name-definition
deriving Repr

/-- `_ft_c_type` on integers -/
def cIntName (signed : Bool) (size : Nat) : String :=
  (if signed then "" else "u") ++ "int" ++ toString (cWidth size) ++ "_t"

def scalarCName : Scalar → String
  | .int sg sz _ => cIntName sg sz
  | .real sz _ => if sz = 32 then "float" else "double"
  | .str => "char"

/-- `_CType`: arithmetic or pointer C type, each possibly `const` -/
inductive CT
  | arith (name : String) (isConst : Bool)
  | ptr (to : CT) (isConst : Bool)
deriving Repr, DecidableEq

/-- `_ArithCType.__str__` / `_PointerCType.__str__` -/
def CT.render : CT → String
  | .arith n c => (if c then "const " else "") ++ n
  | .ptr t c =>
    let s := t.render
    s ++ (if s.endsWith "*" then "" else " ") ++ "*" ++ (if c then " const" else "")

/-- `_ft_c_type(ft, is_const)` for element types -/
def elemCT (isConst : Bool) : Elem → CT
  | .sc .str => .ptr (.arith "char" true) isConst
  | .sc s => .arith (scalarCName s) isConst
  | .sarr _ e => .ptr (elemCT true e) isConst

def ftCT (isConst : Bool) : FT → CT
  | .el e => elemCT isConst e
  | .darr _ e => .ptr (elemCT true e) isConst
  | .uuid => .ptr (.arith "uint8_t" true) isConst

def ftCType (isConst : Bool) (ft : FT) : String := (ftCT isConst ft).render

def FT.isDyn : FT → Bool
  | .el e => e.leaf == .str
  | .darr _ _ => true
  | .uuid => false

/-- a member is the length of a dynamic array of the same structure (`_is_len`) -/
def isLenMember (ms : List Member) (name : String) : Bool :=
  ms.any fun m => match m.ft with | .darr ln _ => ln == name | _ => false

/-- `_proto_params_str`: (C type, parameter name) of the members of a root structure -/
def protoParams (isConst : Bool) (pfx : String) (exclude : List String) (onlyDyn : Bool) (ms : List Member) :
    List (String × String) :=
  (ms.filter fun m => !exclude.contains m.name && (!onlyDyn || m.ft.isDyn || isLenMember ms m.name)).map
    fun m => (ftCType isConst m.ft, pfx ++ "_" ++ m.name)

def openParams (isConst : Bool) (c : Cfg) (d : DST) : List (String × String) :=
  protoParams isConst "ph" ["magic", "stream_id", "uuid"] false c.phStruct.members ++
  protoParams isConst "pc" ["timestamp_begin", "timestamp_end", "packet_size", "content_size", "events_discarded",
    "packet_seq_num"] false d.pcStruct.members

def traceParams (isConst : Bool) (onlyDyn : Bool) (d : DST) (e : ERT) : List (String × String) :=
  protoParams isConst "h" ["id", "timestamp"] onlyDyn d.erhStruct.members ++
  (match d.ercc with | some s => protoParams isConst "cc" [] onlyDyn s.members | none => []) ++
  (match e.sc with | some s => protoParams isConst "sc" [] onlyDyn s.members | none => []) ++
  (match e.p with | some s => protoParams isConst "p" [] onlyDyn s.members | none => [])

/-- func-proto-params.j2 -/
def renderParam (p : String × String) : String :=
  p.1 ++ (if p.1.endsWith "*" then "" else " ") ++ p.2

/-! names -/

def apiNames : List String :=
  ["packet_size", "packet_is_full", "packet_is_empty", "packet_events_discarded", "discarded_event_records_count",
   "packet_sequence_number", "packet_buf", "packet_buf_addr", "packet_buf_size", "packet_set_buf", "packet_is_open",
   "is_in_tracing_section", "is_in_tracing_section_ptr", "is_tracing_enabled", "enable_tracing", "init"]

def dstSymbols (p : String) (d : DST) : List String :=
  [p ++ d.name ++ "_open_packet", p ++ d.name ++ "_close_packet"] ++
    d.erts.map fun e => p ++ d.name ++ "_trace_" ++ e.name

/-- every external symbol the generated source defines -/
def symbolsOf (o : GenOpts) (c : Cfg) : List String :=
  apiNames.map (o.identPrefix ++ ·) ++ (c.dsts.map (dstSymbols o.identPrefix)).flatten

/-- generated file names (`codegen.py`): header, bit-field header, source, and the metadata stream -/
def fileNamesOf (o : GenOpts) : List String :=
  [o.filePrefix ++ ".h", o.filePrefix ++ "-bitfield.h", o.filePrefix ++ ".c", "metadata"]

/-- the `trace_<event>` shorthand macros of the default data stream type: (macro name, expansion) -/
def shorthandMacros (o : GenOpts) (c : Cfg) : List (String × String) :=
  match o.defaultDst with
  | none => []
  | some dn =>
    match c.dsts.find? (fun d => d.name == dn) with
    | none => []
    | some d => d.erts.map fun e => (o.identPrefix ++ "trace_" ++ e.name, o.identPrefix ++ d.name ++ "_trace_" ++ e.name)

/-- `_v3_prefixes_from_v2_prefix` / CLI `--prefix`: identifier prefix `p`, file name prefix `p` without
    trailing underscores -/
def rstripUnderscore (s : String) : String := String.ofList (s.toList.reverse.dropWhile (· == '_')).reverse
def cliPrefixes (p : String) : String × String := (p, rstripUnderscore p)

/-! numeric IDs -/

/-- position of `n` in the ascending sort of the names -/
def idOf (names : List String) (n : String) : Option Nat :=
  (names.mergeSort (fun a b => decide (a ≤ b))).idxOf? n

def sortedNames (names : List String) : List String := names.mergeSort (fun a b => decide (a ≤ b))

end BVM
