/-
  Model/V2.lean — the barectf 2 dialect: `config_parse_v2._Parser._parse` as pure functions over `Y`:
  inclusions (`procInclude` at the barectf 2 kinds), field type expansion at the barectf 2 slots, and
  the conversion of the (almost) effective barectf 2 node into a barectf 3 configuration node
  (`_transform_config_node`, `_conv_*`).  `expand2` then hands the result to the barectf 3 pipeline,
  as `config_parse._create_v3_parser` does.

  Key order matters (the effective document is dumped in order): `_rename_prop` appends the new key,
  assignments to an existing key keep its place, fresh nodes are built in the order of the code.
  Missing keys that the Python subscripts without guard are `.error (.crash "KeyError …")`.
-/
import BVM.Model.Expand
namespace BVM

def req (k : String) (m : KVs) : FR Y :=
  match kvGet k m with
  | some v => .ok v
  | none => .error (.crash s!"KeyError: {k}")

def asMap (what : String) : Y → FR KVs
  | .map m => .ok m
  | _ => .error (.crash s!"{what} is not a mapping")

/-- `_rename_prop` -/
def renameProp (old new : String) (m : KVs) : KVs :=
  match kvGet old m with
  | some v => kvErase old (kvSet new v m)
  | none => m

/-- `_copy_prop_if_exists(dst, src, src_name, dst_name)` -/
def copyProp (src : KVs) (srcName dstName : String) (dst : KVs) : KVs :=
  match kvGet srcName src with
  | some v => kvSet dstName v dst
  | none => dst

/-! ### field types -/

/-- `mappings_node[label].append(value)` (creating the list on first use) -/
def pushLabel (acc : KVs) (lv : String × Y) : KVs :=
  kvSet lv.1 (.seq (match kvGet lv.1 acc with | some (.seq l) => l ++ [lv.2] | _ => [lv.2])) acc

/-- enumeration members → mappings (`_conv_enum_ft_node`), `cur` is the auto-incremented value -/
def convEnumMembers : List Y → Int → KVs → FR KVs
  | [], _, acc => .ok acc
  | .str label :: r, cur, acc => convEnumMembers r (cur + 1) (pushLabel acc (label, .int cur))
  | .map mm :: r, _, acc => do
    let label ← req "label" mm
    let value ← req "value" mm
    match label with
    | .str lb =>
      match value with
      | .int v => convEnumMembers r (v + 1) (pushLabel acc (lb, .int v))
      | .seq [a, .int b] => convEnumMembers r (b + 1) (pushLabel acc (lb, .seq [a, .int b]))
      | .seq [_, _] => .error (.crash "TypeError: range end + 1")
      | .seq _ => .error (.crash "assert len(v2_value_node) == 2")
      | _ => .error (.crash "assert type(v2_value_node) is list")
    | _ => .error (.crash "unhashable / non-string label")
  | _ :: _, _, _ => .error (.crash "assert type(member_node) is OrderedDict")

def convIntFt (m : KVs) : KVs :=
  let cls := match kvGet "signed" m with | some (.bool true) => "sint" | _ => "uint"
  let m1 := kvSet "class" (.str cls) m
  let m2 := kvErase "signed" m1
  let m3 := renameProp "align" "alignment" m2
  let m4 := renameProp "base" "preferred-display-base" m3
  kvErase "property-mappings" (kvErase "byte-order" (kvErase "encoding" m4))

/-- one structure member: `- name: {field-type: <converted>}` -/
def convField (rec : Y → FR Y) (nf : String × Y) : FR Y := do
  let ft3 ← rec nf.2
  .ok (Y.map [(nf.1, .map [("field-type", ft3)])])

/-- `_conv_ft_node` -/
def convFt : Nat → Y → FR Y
  | 0, _ => .error .fuel
  | fuel + 1, v => do
    let m ← asMap "field type" v
    let cls ← req "class" m
    match cls with
    | .str "int" | .str "integer" => .ok (.map (convIntFt m))
    | .str "enum" | .str "enumeration" => do
      let vt ← req "value-type" m
      let v3 ← convFt fuel vt
      let v3m ← asMap "value type" v3
      let cname := match kvGet "class" v3m with | some (.str "sint") => "senum" | _ => "uenum"
      let v3a := kvSet "class" (.str cname) v3m
      match kvGetNN "members" m with
      | none => .ok (.map v3a)
      | some (.seq ms) => do
        let mp ← convEnumMembers ms 0 []
        .ok (.map (kvSet "mappings" (.map mp) v3a))
      | some _ => .error (.crash "members is not a sequence")
    | .str "flt" | .str "float" | .str "floating-point" => do
      let m1 := renameProp "align" "alignment" (kvSet "class" (.str "real") m)
      let sz ← req "size" m1
      let szm ← asMap "size" sz
      let e ← req "exp" szm
      let mt ← req "mant" szm
      match e, mt with
      | .int a, .int b => .ok (.map (kvSet "size" (.int (a + b)) m1))
      | _, _ => .error (.crash "TypeError: exp + mant")
    | .str "str" | .str "string" => .ok (.map (kvErase "encoding" m))
    | .str "array" => do
      let len ← req "length" m
      let dyn := decide (len = .str "dynamic")
      let et ← req "element-type" m
      let e3 ← convFt fuel et
      let base : KVs := [("class", .str (if dyn then "dynamic-array" else "static-array"))]
      let b1 := if dyn then base else copyProp m "length" "length" base
      .ok (.map (kvSet "element-field-type" e3 b1))
    | .str "struct" | .str "structure" => do
      let b0 : KVs := [("class", cls)]
      let b1 := copyProp m "min-align" "minimum-alignment" b0
      match kvGetNN "fields" m with
      | none => .ok (.map b1)
      | some fv => do
        let fm ← asMap "fields" fv
        let ms ← fm.mapM (convField (convFt fuel))
        .ok (.map (kvSet "members" (.seq ms) b1))
    | _ => .error (.crash "assert cls in self._ft_cls_name_to_conv_method")

/-- `_conv_ft_node_if_exists(parent, key)` with `parent` possibly `None` -/
def convFtIfExists (fuel : Nat) (parent : Option KVs) (key : String) : FR (Option Y) :=
  match parent with
  | none => .ok none
  | some p =>
    match kvGet key p with
    | none => .ok none
    | some v => do let r ← convFt fuel v; .ok (some r)

/-- `_set_v3_feature_ft_if_exists` -/
def setFeature (k : String) (v : Option Y) (m : KVs) : KVs := kvSet k (v.getD (.bool false)) m

/-! ### clock, event record, data stream types, metadata -/

def convClk (m : KVs) : KVs :=
  renameProp "$return-ctype" "$c-type" (renameProp "return-ctype" "$c-type"
    (renameProp "absolute" "origin-is-unix-epoch" (renameProp "error-cycles" "precision" (renameProp "freq" "frequency" m))))

def convErt (fuel : Nat) (m : KVs) : FR KVs := do
  let e0 := copyProp m "log-level" "log-level" []
  let e1 ← match kvGetNN "context-type" m with
    | some ft => do let r ← convFt fuel ft; .ok (kvSet "specific-context-field-type" r e0)
    | none => .ok e0
  match kvGetNN "payload-type" m with
  | some ft => do let r ← convFt fuel ft; .ok (kvSet "payload-field-type" r e1)
  | none => .ok e1

/-- `clk_type_name_from_v2_int_ft_node` -/
def clkNameOf : Option Y → FR (Option Y)
  | none => .ok none
  | some .null => .ok none
  | some (.map m) =>
    match kvGet "class" m with
    | some (.str "int") | some (.str "integer") =>
      match kvGetNN "property-mappings" m with
      | some (.seq (.map pm :: _)) => do let n ← req "name" pm; .ok (some n)
      | some (.seq []) => .ok none
      | none => .ok none
      | some _ => .error (.crash "property-mappings shape")
    | some _ => .error (.crash "assert v2_int_ft_node['class'] in ('int', 'integer')")
    | none => .error (.crash "KeyError: class")
  | some _ => .error (.crash "TypeError: field type node is not a mapping")

def ctfMemberNames : List String :=
  ["packet_size", "content_size", "timestamp_begin", "timestamp_end", "events_discarded", "packet_seq_num"]

def fieldsOf (what : String) (ft : Y) : FR KVs := do
  let m ← asMap what ft
  let f ← req "fields" m
  asMap (what ++ " fields") f

/-- `ft_node.get('fields')`: absent or null → `None` -/
def optFieldsOf (what : String) (ft : Y) : FR (Option KVs) := do
  let m ← asMap what ft
  match kvGetNN "fields" m with
  | none => .ok none
  | some f => do let fm ← asMap (what ++ " fields") f; .ok (some fm)

/-- `timestamp_begin` / `timestamp_end` mapped to different clocks is a configuration error -/
def clocksOrError (tsb tse : Option Y) : FR Unit :=
  match tsb, tse with
  | some a, some b => if a ≠ b then .error (.other "Field types are not mapped to the same clock type") else .ok ()
  | _, _ => .ok ()

/-- the event record `timestamp` member's clock first, else the one of `timestamp_begin`, else `timestamp_end` -/
def pickClock (c0 tsb tse : Option Y) : Option Y :=
  match c0 with
  | some c => some c
  | none => match tsb with
    | some c => some c
    | none => tse

/-- one `events` entry -/
def convEvent (fuel : Nat) (ne : String × Y) : FR (String × Y) := do
  let em ← asMap "event" ne.2
  let e3 ← convErt fuel em
  .ok (ne.1, Y.map e3)

/-- default clock type of a data stream type -/
def defaultClock (pc : KVs) (eh : Option KVs) : FR (Option Y) := do
  let tsb ← clkNameOf (kvGet "timestamp_begin" pc)
  let tse ← clkNameOf (kvGet "timestamp_end" pc)
  clocksOrError tsb tse
  let c0 ← match eh with
    | some ehf => clkNameOf (kvGet "timestamp" ehf)
    | none => .ok none
  .ok (pickClock c0 tsb tse)

/-- `v3_features_node_from_v2_ft_nodes`: a feature is enabled (with the converted field type) exactly when
    the reserved member exists; the two sizes are mandatory -/
def dstFeatures (fuel : Nat) (pc : KVs) (eh : Option KVs) : FR Y := do
  let psz ← req "packet_size" pc
  let total ← convFt fuel psz
  let csz ← req "content_size" pc
  let content ← convFt fuel csz
  let beg ← convFtIfExists fuel (some pc) "timestamp_begin"
  let end_ ← convFtIfExists fuel (some pc) "timestamp_end"
  let disc ← convFtIfExists fuel (some pc) "events_discarded"
  let seq ← convFtIfExists fuel (some pc) "packet_seq_num"
  let ehf := eh.getD []
  let tid ← convFtIfExists fuel (some ehf) "id"
  let ts ← convFtIfExists fuel (some ehf) "timestamp"
  let pkt : KVs := setFeature "sequence-number-field-type" seq
    (setFeature "discarded-event-records-counter-snapshot-field-type" disc
    (setFeature "end-timestamp-field-type" end_ (setFeature "beginning-timestamp-field-type" beg
      [("total-size-field-type", total), ("content-size-field-type", content)])))
  let er : KVs := setFeature "timestamp-field-type" ts (setFeature "type-id-field-type" tid [])
  .ok (.map [("packet", .map pkt), ("event-record", .map er)])

/-- the members of the packet context type that are not reserved names become extra members, in order -/
def extraMembers (fuel : Nat) (pc : KVs) : FR (List Y) :=
  (pc.filter fun kv => !ctfMemberNames.contains kv.1).mapM (convField (convFt fuel))

def convDst (fuel : Nat) (m : KVs) : FR KVs := do
  let d0 := copyProp m "$default" "$is-default" []
  let pct ← req "packet-context-type" m
  let pc ← fieldsOf "packet-context-type" pct
  let eh : Option KVs ← match kvGetNN "event-header-type" m with
    | none => .ok none
    | some ehv => optFieldsOf "event-header-type" ehv
  let defClk ← defaultClock pc eh
  let d1 := match defClk with | some c => kvSet "$default-clock-type-name" c d0 | none => d0
  let feats ← dstFeatures fuel pc eh
  let d2 := kvSet "$features" feats d1
  let extra ← extraMembers fuel pc
  let d3 := if extra.isEmpty then d2 else kvSet "packet-context-field-type-extra-members" (.seq extra) d2
  let d4 ← match kvGetNN "event-context-type" m with
    | some ft => do let r ← convFt fuel ft; .ok (kvSet "event-record-common-context-field-type" r d3)
    | none => .ok d3
  let evs ← req "events" m
  let evm ← asMap "events" evs
  let erts ← evm.mapM (convEvent fuel)
  .ok (kvSet "event-record-types" (.map erts) d4)

def convMeta (fuel : Nat) (mnode : KVs) : FR KVs := do
  let trv ← req "trace" mnode
  let tr ← asMap "trace" trv
  let t0 := copyProp tr "uuid" "uuid" (copyProp tr "byte-order" "trace-byte-order" [])
  let t1 := copyProp mnode "$log-levels" "$log-level-aliases" (copyProp mnode "log-levels" "$log-level-aliases" t0)
  let t2 ← match kvGetNN "clocks" mnode with
    | none => .ok t1
    | some cv => do
      let cm ← asMap "clocks" cv
      let cs ← cm.mapM fun (n, c) => do
        let c' ← asMap "clock" c
        .ok (n, Y.map (convClk c'))
      .ok (kvSet "clock-types" (.map cs) t1)
  -- features from the packet header type
  let phf : KVs ← match kvGetNN "packet-header-type" tr with
    | none => .ok []
    | some ph => do let f ← optFieldsOf "packet-header-type" ph; .ok (f.getD [])
  let magic ← convFtIfExists fuel (some phf) "magic"
  let uuid ← convFtIfExists fuel (some phf) "uuid"
  let sid ← convFtIfExists fuel (some phf) "stream_id"
  let feats : KVs := setFeature "data-stream-type-id-field-type" sid (setFeature "uuid-field-type" uuid
    (setFeature "magic-field-type" magic []))
  let t3 := kvSet "$features" (.map feats) t2
  let sv ← req "streams" mnode
  let sm ← asMap "streams" sv
  let dsts ← sm.mapM fun (n, d) => do
    let dm ← asMap "stream" d
    let d3 ← convDst fuel dm
    .ok (n, Y.map d3)
  -- `$default-stream`
  let dsts2 ← match kvGetNN "$default-stream" mnode with
    | none => .ok dsts
    | some (.str dn) =>
      match kvGet dn dsts with
      | some (.map d) => .ok (kvSet dn (.map (kvSet "$is-default" (.bool true) d)) dsts)
      | _ => .error (.other s!"Data stream type `{dn}` does not exist")
    | some _ => .error (.other "default stream does not exist")
  let t4 := kvSet "data-stream-types" (.map dsts2) t3
  let tr0 : KVs := match kvGetNN "env" mnode with | some e => [("environment", e)] | none => []
  .ok (kvSet "type" (.map t4) tr0)

/-- `str.rstrip('_')` -/
def rstripUnderscores (s : String) : String :=
  String.ofList (s.toList.reverse.dropWhile (· = '_')).reverse

/-- `_transform_config_node` -/
def transformConfig (fuel : Nat) (root : KVs) : FR KVs := do
  let r0 := kvErase "version" root
  let pfx := match kvGet "prefix" r0 with | some p => p | none => .str "barectf_"
  let r1 := kvErase "prefix" r0
  let opts := kvGetNN "options" r1
  let r2 := kvErase "options" r1
  let pfxs ← match pfx with
    | .str p => .ok p
    | _ => .error (.crash "AttributeError: prefix.rstrip")
  let cg0 : KVs := [("prefix", .map [("identifier", .str pfxs), ("file-name", .str (rstripUnderscores pfxs))])]
  let cg ← match opts with
    | none => .ok cg0
    | some ov => do
      let om ← asMap "options" ov
      let h := copyProp om "gen-default-stream-def" "default-data-stream-type-name-definition"
        (copyProp om "gen-prefix-def" "identifier-prefix-definition" [])
      .ok (kvSet "header" (.map h) cg0)
  let r3 := kvSet "options" (.map [("code-generation", .map cg)]) r2
  let mv ← req "metadata" r3
  let mnode ← asMap "metadata" mv
  let tr ← convMeta fuel mnode
  .ok (kvErase "metadata" (kvSet "trace" (.map tr) r3))

/-! ### barectf 2 field type expansion -/

/-- every field type slot of a barectf 2 metadata node, in the order of `_expand_ft_aliases` -/
def overSlots2 {σ : Type} (f : σ → Y → FR (Y × σ)) (s : σ) (mnode : KVs) : FR (KVs × σ) := do
  let (m1, s1) ← modKeyS "trace" (onMapS (modKeyS "packet-header-type" f)) s mnode
  modKeyS "streams" (onMapS (mapValsS (fun s _ dstv => onMapS (fun s dst => do
      let (d1, s1) ← modKeysS ["packet-context-type", "event-header-type", "event-context-type"] f s dst
      modKeyS "events" (onMapS (mapValsS (fun s _ ertv => onMapS (fun s ert =>
          modKeysS ["context-type", "payload-type"] f s ert) s ertv))) s1 d1) s dstv))) s1 m1

/-- `_expand_fts` of the barectf 2 parser on the metadata node -/
def expandFts2 (fuel : Nat) (mnode : KVs) : FR KVs :=
  match kvGetNN "type-aliases" mnode with
  | none => .ok mnode
  | some (.map aliases) => do
    let f : ASt → Y → FR (Y × ASt) := fun st y => resolveVal false fuel { st with aset := [] } y
    let (m1, st1) ← overSlots2 f ⟨aliases, [], []⟩ mnode
    let _ ← resolveAllAliases false fuel (kvKeys st1.aliases) st1
    let m2 := kvErase "type-aliases" m1
    let (m3, _) ← overSlots2 (stateless (inheritVal false fuel)) () m2
    .ok m3
  | some _ => .error (.shape "type-aliases is not a mapping")

/-- the barectf 3 configuration node a barectf 2 parser hands over (`v2_parser.config_node`);
    `W2` holds the barectf 2 inclusion directories -/
def convert2 (W2 : World) (fuel : Nat) (root : KVs) : FR KVs := do
  let mv ← req "metadata" root
  let m1 ← procInclude W2 fuel [] .meta2 mv
  let mnode ← asMap "metadata" m1
  let m2 ← expandFts2 fuel mnode
  transformConfig fuel (kvSet "metadata" (.map m2) root)

/-- effective configuration node of a barectf 2 document: conversion, then the barectf 3 pipeline
    (`W3`: the same user directories followed by the barectf 3 package directory) -/
def expand2 (W2 W3 : World) (fuel : Nat) (root : KVs) : FR KVs := do
  let c3 ← convert2 W2 fuel root
  expand3 W3 fuel c3

end BVM
