/-
  Model/FT.lean — field types as barectf/config.py builds them, restricted to the
  shapes the front end lets through (config_parse_v3._create_array_ft,
  _create_struct_ft_members): a root structure has members; a member is an
  element type or a dynamic array of an element type; an element type is a
  scalar or a static array of an element type.  No nested structure.
-/
import BVM.Model.Bits
namespace BVM

/-- scalar field types (`_BitArrayFieldType` subclasses and `StringFieldType`);
    enumerations are integers for layout purposes -/
inductive Scalar
  | int (signed : Bool) (size align : Nat)
  | real (size align : Nat)
  | str
deriving Repr, DecidableEq

/-- element field types -/
inductive Elem
  | sc (s : Scalar)
  | sarr (len : Nat) (e : Elem)
deriving Repr, DecidableEq

/-- member field types; `uuid` is the packet header's UUID member (static array of 16 bytes,
    handled by its own template) -/
inductive FT
  | el (e : Elem)
  | darr (lenName : String) (e : Elem)
  | uuid
deriving Repr, DecidableEq

structure Member where
  name : String
  ft : FT
deriving Repr, DecidableEq

structure Struct where
  minAlign : Nat
  members : List Member
deriving Repr, DecidableEq

/-- `alignment` property of config.py (`StringFieldType` → 8, arrays → element) -/
def Scalar.align : Scalar → Nat
  | .int _ _ a => a
  | .real _ a => a
  | .str => 8

def Elem.align : Elem → Nat
  | .sc s => s.align
  | .sarr _ e => e.align

def FT.align : FT → Nat
  | .el e => e.align
  | .darr _ e => e.align
  | .uuid => 8          -- static array of uint8 aligned 8 (DEFAULT_FIELD_TYPE)

/-- `StructureFieldType._set_alignment` -/
def Struct.align (s : Struct) : Nat :=
  s.members.foldl (fun a m => max a m.ft.align) s.minAlign

/-- the scalar at the leaves of an element type -/
def Elem.leaf : Elem → Scalar
  | .sc s => s
  | .sarr _ e => e.leaf

/-- number of scalar leaves of one value of the element type -/
def Elem.leafCount : Elem → Nat
  | .sc _ => 1
  | .sarr n e => n * e.leafCount

/-- `_ft_c_type` for integers: smallest of 8/16/32/64 that holds the size -/
def cWidth (size : Nat) : Nat :=
  if size ≤ 8 then 8 else if size ≤ 16 then 16 else if size ≤ 32 then 32 else 64

/-- carrier C type used by the bit-array write of a scalar
    (`op.ft | ft_c_type` for integers; `uint32_t`/`uint64_t` for the real's union member) -/
def Scalar.carrier : Scalar → CInt
  | .int sg sz _ => ⟨cWidth sz, sg⟩
  | .real sz _ => ⟨if sz = 32 then 32 else 64, false⟩
  | .str => ⟨8, false⟩

def Scalar.size : Scalar → Nat
  | .int _ sz _ => sz
  | .real sz _ => sz
  | .str => 0

/-- well-formedness the front end guarantees for a scalar -/
def Scalar.WF : Scalar → Prop
  | .int _ sz a => 1 ≤ sz ∧ sz ≤ 64 ∧ ∃ k, a = 2 ^ k
  | .real sz a => (sz = 32 ∨ sz = 64) ∧ ∃ k, a = 2 ^ k
  | .str => True

end BVM
