/-
  Model/Schema.lean — a JSON-Schema draft-07 interpreter for the keywords barectf's schemas use, with
  the semantics of the `jsonschema` 3.2 `Draft7Validator` that `config_parse_common._SchemaValidator`
  runs: `type` (only a YAML integer is an `integer` — barectf redefines the draft-07 type checker so — and a boolean
  is neither `integer` nor `number`), `enum`,
  `const` (Python equality, booleans distinct from 0/1), `properties`, `patternProperties`,
  `additionalProperties`, `required`, `dependencies` (array form), `items` (single schema), `minItems`,
  `maxItems`, `minProperties`, `maxProperties`, `minimum`, `maximum`, `pattern`, `if`/`then`/`else`,
  `allOf`, `anyOf`, `oneOf`, `not`, `$ref` (its siblings are ignored, as draft-07 says), boolean schemas.

  The schemas themselves are not written here: `BVM/Gen/Schemas.lean` is generated from the YAML files of
  /repo/barectf/schemas on every run (harness/schematr.py) and holds one `Schema` per file root and per
  `definitions` entry, keyed by `<$id>#/definitions/<name>`.

  Regular expressions: the schemas use four patterns; the translator maps each to a `Pat` constructor whose
  matcher below follows Python's `re.search` (in particular `$` also matches before a trailing new-line);
  any other pattern makes the translator fail.
-/
import BVM.Model.Yaml
namespace BVM

inductive JType
  | null | boolean | integer | number | string | array | object
deriving Repr, DecidableEq

inductive Pat
  | iden      -- ^[A-Za-z_][A-Za-z0-9_]*$
  | idenZ     -- ^[A-Za-z_][A-Za-z0-9_]*\Z   (no trailing new-line)
  | uuid      -- ^[0-9a-f]{8}-[0-9a-f]{4}-[0-9a-f]{4}-[0-9a-f]{4}-[0-9a-f]{12}$
  | uuidZ
  | any       -- '' and '.*'
deriving Repr, DecidableEq

/-- a schema object is `.obj` of its keywords; each keyword is itself a (single-keyword) schema -/
inductive Schema where
  | bool (b : Bool)
  | ref (key : String)
  | obj (kws : List Schema)
  | type (ts : List JType)
  | enum (vs : List Y)
  | const (v : Y)
  | properties (ps : List (String × Schema))
  | patternProperties (ps : List (Pat × Schema))
  | additionalProperties (s : Schema)
  | required (ks : List String)
  | dependencies (ds : List (String × List String))
  | items (s : Schema)
  | minItems (n : Nat) | maxItems (n : Nat) | minProperties (n : Nat) | maxProperties (n : Nat)
  | minimum (i : Int) | maximum (i : Int)
  | pattern (p : Pat)
  | ite (i : Schema) (t : Option Schema) (e : Option Schema)
  | allOf (ss : List Schema) | anyOf (ss : List Schema) | oneOf (ss : List Schema)
  | not (s : Schema)

abbrev KW := Schema

abbrev Store := List (String × Schema)

/-! ### characters and patterns (Python `re.search`) -/

def isIdenStart (c : Char) : Bool := c.isAlpha || c = '_'
def isIdenChar (c : Char) : Bool := c.isAlphanum || c = '_'

/-- `^[A-Za-z_][A-Za-z0-9_]*\Z` -/
def matchIdenZ (cs : List Char) : Bool :=
  match cs with
  | [] => false
  | c :: r => isIdenStart c && r.all isIdenChar

/-- Python's `$`: end of string, or just before a new-line that ends the string -/
def stripFinalNewline (cs : List Char) : List Char :=
  match cs.reverse with
  | '\n' :: r => r.reverse
  | _ => cs

def matchIden (cs : List Char) : Bool := matchIdenZ cs || matchIdenZ (stripFinalNewline cs)

def isLowerHex (c : Char) : Bool := c.isDigit || ('a' ≤ c && c ≤ 'f')

def matchUuidZ (cs : List Char) : Bool :=
  cs.length = 36 &&
  (List.range 36).all fun i =>
    let c := cs.getD i ' '
    if i = 8 || i = 13 || i = 18 || i = 23 then c = '-' else isLowerHex c

def matchUuid (cs : List Char) : Bool := matchUuidZ cs || matchUuidZ (stripFinalNewline cs)

def Pat.matches (p : Pat) (s : String) : Bool :=
  match p with
  | .iden => matchIden s.toList
  | .idenZ => matchIdenZ s.toList
  | .uuid => matchUuid s.toList
  | .uuidZ => matchUuidZ s.toList
  | .any => true

/-! ### numbers -/

/-- rational value (numerator, denominator > 0) of a float `repr` of the form `-?digits.digits`; `none` for
    any other spelling (exponents, inf, nan): the harness never sends those to the model -/
def floatVal (r : String) : Option (Int × Nat) :=
  let cs := r.toList
  let (neg, cs) := match cs with | '-' :: t => (true, t) | _ => (false, cs)
  let ip := cs.takeWhile Char.isDigit
  let rest := cs.dropWhile Char.isDigit
  match rest with
  | '.' :: fp =>
    if ip.isEmpty || fp.isEmpty || !fp.all Char.isDigit then none else
    let n := (String.ofList (ip ++ fp)).toNat!
    let d := 10 ^ fp.length
    some (if neg then -(n : Int) else n, d)
  | _ => none

/-- numeric value of an instance, booleans excluded (`is_type(instance, "number")`) -/
def numVal : Y → Option (Int × Nat)
  | .int i => some (i, 1)
  | .float r => floatVal r
  | _ => none

def isIntegral (q : Int × Nat) : Bool := q.1 % (q.2 : Int) = 0

def isType (t : JType) (y : Y) : Bool :=
  match t, y with
  | .null, .null => true
  | .boolean, .bool _ => true
  | .integer, .int _ => true
  | .number, .int _ => true
  | .number, .float _ => true
  | .string, .str _ => true
  | .array, .seq _ => true
  | .object, .map _ => true
  | _, _ => false

mutual
/-- Python `==` between loaded YAML values as `jsonschema` uses it for `enum`/`const`: numbers compare by
    value, booleans only equal booleans (`unbool`), containers structurally -/
def pyEq : Y → Y → Bool
  | .null, .null => true
  | .bool a, .bool b => a == b
  | .str a, .str b => a == b
  | .seq a, .seq b => pyEqL a b
  | .map a, .map b => pyEqM a b
  | a, b =>
    match numVal a, numVal b with
    | some (n1, d1), some (n2, d2) => n1 * (d2 : Int) == n2 * (d1 : Int)
    | _, _ => false
def pyEqL : List Y → List Y → Bool
  | [], [] => true
  | x :: xs, y :: ys => pyEq x y && pyEqL xs ys
  | _, _ => false
/-- dictionaries compare as sets of items; loaded documents and schema constants only meet on scalars, so
    the ordered comparison below is enough for the schemas at hand -/
def pyEqM : List (String × Y) → List (String × Y) → Bool
  | [], [] => true
  | (k, x) :: xs, (k', y) :: ys => k == k' && pyEq x y && pyEqM xs ys
  | _, _ => false
end

def leQ (a b : Int × Nat) : Bool := a.1 * (b.2 : Int) ≤ b.1 * (a.2 : Int)

/-! ### validation -/

def kwProps : List Schema → List (String × Schema)
  | [] => []
  | .properties ps :: r => ps ++ kwProps r
  | _ :: r => kwProps r

def kwPats : List Schema → List (Pat × Schema)
  | [] => []
  | .patternProperties ps :: r => ps ++ kwPats r
  | _ :: r => kwPats r

/-- `find_additional_properties`: not a declared property and not matched by the joined patterns (an empty
    joined pattern string matches nothing there, as in `jsonschema`) -/
def isAdditional (props : List (String × Schema)) (pats : List (Pat × Schema)) (patsJoinedEmpty : Bool) (k : String) : Bool :=
  !(props.any fun p => p.1 == k) && !(!patsJoinedEmpty && pats.any fun p => p.1.matches k)

/-- `jsonschema` raises the first error it meets, in keyword / item order: the outcome of a sequence of
    sub-validations is the first one that is not "valid" (a later crash is never reached) -/
def seqAll (l : List (Option Bool)) : Option Bool :=
  match l.find? (fun r => r != some true) with
  | some r => r
  | none => some true

/-- `anyOf`: stops at the first valid sub-schema -/
def seqAny (l : List (Option Bool)) : Option Bool :=
  match l.find? (fun r => r != some false) with
  | some r => r
  | none => some false

/-- `oneOf`: every sub-schema is evaluated; the number of valid ones -/
def countValid (l : List (Option Bool)) : Option Nat :=
  l.foldl (fun acc r => match acc, r with
    | none, _ => none
    | _, none => none
    | some a, some b => some (if b then a + 1 else a)) (some 0)

/-- `validate store fuel schema instance`: `some true` valid, `some false` invalid, `none` out of fuel or
    an unknown `$ref` -/
def validate (store : Store) : Nat → Schema → Y → Option Bool
  | 0, _, _ => none
  | fuel + 1, s, y =>
    -- one keyword, given the sibling `properties` / `patternProperties` of its schema object
    let kwv (props : List (String × Schema)) (pats : List (Pat × Schema)) (kw : Schema) : Option Bool :=
      match kw with
      | .bool b => some b
      | .ref key =>
        match store.lookup key with
        | some t => validate store fuel t y
        | none => none
      | .obj kws => validate store fuel (.obj kws) y
      | .type ts => some (ts.any fun t => isType t y)
      | .enum vs => some (vs.any fun v => pyEq y v)
      | .const v => some (pyEq y v)
      | .properties ps =>
        match y with
        | .map m => seqAll (ps.map fun (k, sub) => match kvGet k m with
            | some v => validate store fuel sub v
            | none => some true)
        | _ => some true
      | .patternProperties ps =>
        match y with
        | .map m => seqAll (ps.map fun (p, sub) => seqAll (m.map fun (k, v) =>
            if p.matches k then validate store fuel sub v else some true))
        | _ => some true
      | .additionalProperties sub =>
        match y with
        | .map m => seqAll (m.map fun (k, v) =>
            if isAdditional props pats false k then validate store fuel sub v else some true)
        | _ => some true
      | .required ks =>
        match y with
        | .map m => some (ks.all fun k => kvHas k m)
        | _ => some true
      | .dependencies ds =>
        match y with
        | .map m => some (ds.all fun (k, deps) => !kvHas k m || deps.all fun d => kvHas d m)
        | _ => some true
      | .items sub =>
        match y with
        | .seq xs => seqAll (xs.map fun x => validate store fuel sub x)
        | _ => some true
      | .minItems n => some (match y with | .seq xs => decide (n ≤ xs.length) | _ => true)
      | .maxItems n => some (match y with | .seq xs => decide (xs.length ≤ n) | _ => true)
      | .minProperties n => some (match y with | .map m => decide (n ≤ m.length) | _ => true)
      | .maxProperties n => some (match y with | .map m => decide (m.length ≤ n) | _ => true)
      | .minimum i => some (match numVal y with | some q => leQ (i, 1) q | none => true)
      | .maximum i => some (match numVal y with | some q => leQ q (i, 1) | none => true)
      | .pattern p => some (match y with | .str s => p.matches s | _ => true)
      | .ite i t e =>
        match validate store fuel i y with
        | none => none
        | some true => match t with | some ts => validate store fuel ts y | none => some true
        | some false => match e with | some es => validate store fuel es y | none => some true
      | .allOf ss => seqAll (ss.map fun sub => validate store fuel sub y)
      | .anyOf ss => seqAny (ss.map fun sub => validate store fuel sub y)
      | .oneOf ss => (countValid (ss.map fun sub => validate store fuel sub y)).map fun n => decide (n = 1)
      | .not sub => (validate store fuel sub y).map fun b => !b
    match s with
    | .obj kws =>
      -- `$ref` hides its siblings (draft-07)
      match kws.find? (fun k => match k with | .ref _ => true | _ => false) with
      | some r => kwv [] [] r
      | none => seqAll (kws.map (kwv (kwProps kws) (kwPats kws)))
    | kw => kwv [] [] kw

end BVM
