/-
  Model/Patch.lean — `config_parse_common._Parser._update_node` (lines 440–576), the one patching
  function behind inclusion and field type inheritance, as a pure function: the updated base node is
  the result.

  * `patchMap v3 base overlay` — for each overlay property in order: absent in the base → appended;
    both mappings → merged recursively; both sequences → appended, except the `members` property in
    the barectf 3 dialect (`v3 = true`), which is patched as an ordered map by member name
    (`update_members_node`); anything else (scalars, `null`, kind clash) → the overlay value replaces
    the base value in place.
  * `patchMembers` — an overlay item that is a mapping with exactly one key `n` updates the first base
    item that is a mapping with exactly one key `n` (usual strategy on that item); otherwise the item
    is appended.

  (The pinned tree tested `len(olay_item)` twice and indexed the first key of any base mapping, so an
   empty base item crashed — finding F13, repaired in /repo; this is the repaired function.)
-/
import BVM.Model.Yaml
namespace BVM

def upsertWith (k : String) (f : Y → Y) (d : Y) : KVs → KVs
  | [] => [(k, d)]
  | (k', v) :: r => if k' = k then (k', f v) :: r else (k', v) :: upsertWith k f d r

def updMemberWith (n : String) (f : Y → Y) (d : Y) : List Y → List Y
  | [] => [d]
  | .map [(bn, bv)] :: r =>
     if bn = n then .map [(bn, f bv)] :: r
     else .map [(bn, bv)] :: updMemberWith n f d r
  | x :: r => x :: updMemberWith n f d r

mutual
def patchMap (v3 : Bool) (b : KVs) : KVs → KVs
  | [] => b
  | (k, ov) :: rest => patchMap v3 (upsertWith k (fun bv => merge v3 k bv ov) ov b) rest
termination_by structural o => o
/-- the new value of property `k` whose base value is `bv` and overlay value the last argument -/
def merge (v3 : Bool) (k : String) (bv : Y) : Y → Y
  | .map o => match bv with
      | .map b => .map (patchMap v3 b o)
      | _ => .map o
  | .seq o => match bv with
      | .seq b => if k = "members" ∧ v3 = true then .seq (patchMembers v3 b o) else .seq (b ++ o)
      | _ => .seq o
  | ov => ov
termination_by structural ov => ov
def patchMembers (v3 : Bool) (b : List Y) : List Y → List Y
  | [] => b
  | .map [(n, ov)] :: rest =>
      patchMembers v3 (updMemberWith n (fun bv => merge v3 n bv ov) (.map [(n, ov)]) b) rest
  | oi :: rest => patchMembers v3 (b ++ [oi]) rest
termination_by structural o => o
end

/-- `_update_node(base, overlay)` on nodes (both are mappings wherever the parser calls it) -/
def patchNode (v3 : Bool) : Y → Y → Y
  | .map b, .map o => .map (patchMap v3 b o)
  | _, o => o

end BVM
