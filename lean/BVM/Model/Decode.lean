/-
  Model/Decode.lean — what a CTF reader must return for the arguments of a tracing call (the specification side
  of the record-level round trip, C01), and the executable precondition under which Proofs/RoundTrip.lean proves
  that the reader of Model/Tsdl.lean returns exactly that from the bytes the serialiser of Model/Ser.lean wrote.
-/
import BVM.Model.Tsdl
namespace BVM

/-- what a CTF reader must return for a traced leaf of scalar type `sc`: the value reduced to the field
    (two's complement for signed integers, the bit pattern for reals), the string itself -/
def decLeaf (sc : Scalar) (l : Leaf) : Leaf :=
  match sc with
  | .int sg sz _ => .num (signExtend sg sz ((l.toInt % (2 : Int) ^ sz).toNat))
  | .real sz _ => .num ((l.toInt % (2 : Int) ^ sz).toNat)
  | .str => .str l.bytes

/-- a string argument holds no NUL byte (it is a C string) -/
def LeafOK (l : Leaf) : Prop := ∀ x ∈ l.bytes, x ≠ 0

instance (l : Leaf) : Decidable (LeafOK l) := by unfold LeafOK; infer_instance

/-- the next `k` leaves of an argument list (a missing leaf is the value 0, as `SerSt.pop`) -/
def takePad : Nat → List Leaf → List Leaf
  | 0, _ => []
  | k + 1, ls => ls.headD (.num 0) :: takePad k ls.tail

/-- number of elements of a dynamic array: the value of its length argument, as the generated C reads it -/
def cntOf (pfx : String) (args : Args) (ln : String) : Nat :=
  u32 (((args.get (pfx ++ "_" ++ ln)).headD (.num 0)).toInt.toNat)

/-- what a CTF reader must return for member `m` -/
def decMember (pfx : String) (args : Args) (m : Member) : List Leaf :=
  match m.ft with
  | .el e => (takePad e.leafCount (args.get (pfx ++ "_" ++ m.name))).map (decLeaf e.leaf)
  | .darr ln e => (takePad (cntOf pfx args ln * e.leafCount) (args.get (pfx ++ "_" ++ m.name))).map (decLeaf e.leaf)
  | .uuid => []

def FT.leaf : FT → Scalar
  | .el e => e.leaf
  | .darr _ e => e.leaf
  | .uuid => .int false 8 8

/-- executable form of `LenScopeOK` (evaluated by the driver on traced records) -/
def lenScopeOKb (pfx : String) (args : Args) : List Member → List (String × List Leaf) → Bool
  | [], _ => true
  | m :: ms, scope =>
    (match m.ft with
     | .darr ln _ => decide (lenValue scope (.ref ln) = some (cntOf pfx args ln))
     | _ => true) && lenScopeOKb pfx args ms ((m.name, decMember pfx args m) :: scope)

def pow2b (a : Nat) : Bool := decide (1 ≤ a) && (a &&& (a - 1) == 0)

def scalarWFb : Scalar → Bool
  | .int _ sz a => decide (1 ≤ sz) && decide (sz ≤ 64) && pow2b a
  | .real sz a => (sz == 32 || sz == 64) && pow2b a
  | .str => true

def memberPreb (pfx : String) (args : Args) (m : Member) : Bool :=
  (match m.ft with | .uuid => false | _ => true) && scalarWFb m.ft.leaf &&
    (args.get (pfx ++ "_" ++ m.name)).all (fun l => l.bytes.all (fun x => x != 0))

/-- every hypothesis of `struct_roundtrip` on a root structure, its arguments, the buffer size and the position -/
def rootPreb (env : SerEnv) (L : Nat) (pfx : String) (args : Args) (S : Struct) (at_ : Nat) : Bool :=
  pow2b S.align && S.members.all (memberPreb pfx args) && lenScopeOKb pfx args S.members [] &&
    decide (8 * L + 2 * S.align ≤ 2 ^ 32) && (!env.fast || env.bo == .le) && decide (at_ ≤ 8 * L)

end BVM
