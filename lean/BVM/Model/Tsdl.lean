/-
  Model/Tsdl.lean — (1) what the generated metadata says about layout: `tsdlOf`, a transcription of
  barectf/tsdl182gen.py + templates/metadata/{struct,int,real,str,enum}-ft.j2 into a small TSDL IR
  (sizes, alignments, signedness, array lengths, `align(N)` of structures); (2) an independent CTF 1.8
  reader defined on that IR only.

  The reader follows the CTF 1.8 rules, not the tracer: a structure is aligned on the maximum of its
  `align(N)` and of its members' alignments; arrays and sequences are aligned on their element's
  alignment (even when empty) and so is each element; strings are byte-aligned, NUL-terminated;
  integers are read in the trace byte order with the CTF bit order (`bitLE`/`bitBE` of Model/Bits);
  a sequence's length is the value of the named earlier member of the same structure.
-/
import BVM.Model.Cfg
namespace BVM

inductive TScalar
  | int (signed : Bool) (size align : Nat)
  | float (mant exp align : Nat)
  | str
deriving Repr, DecidableEq

inductive TLen
  | lit (n : Nat)
  | ref (name : String)
deriving Repr, DecidableEq

structure TMember where
  name : String
  ty : TScalar
  lens : List TLen
deriving Repr, DecidableEq

structure TStruct where
  align : Nat           -- the `align(N)` the text states
  members : List TMember
deriving Repr, DecidableEq

/-! ### what the metadata says -/

def tsdlScalar : Scalar → TScalar
  | .int sg sz al => .int sg sz al
  | .real sz al => .float (if sz = 32 then 24 else 53) (if sz = 32 then 8 else 11) al
  | .str => .str

/-- `_filt_ft_lengths` (outermost first) and `_filt_deepest_ft` -/
def elemLens : Elem → List TLen
  | .sc _ => []
  | .sarr n e => .lit n :: elemLens e

def tsdlMember (m : Member) : TMember :=
  match m.ft with
  | .el e => ⟨m.name, tsdlScalar e.leaf, elemLens e⟩
  | .darr ln e => ⟨m.name, tsdlScalar e.leaf, .ref ln :: elemLens e⟩
  | .uuid => ⟨m.name, .int false 8 8, [.lit 16]⟩

/-- struct-ft.j2: members in order, `align(minimum_alignment)` -/
def tsdlStruct (s : Struct) : TStruct := ⟨s.minAlign, s.members.map tsdlMember⟩

/-! ### the reader -/

def TScalar.align : TScalar → Nat
  | .int _ _ a => a
  | .float _ _ a => a
  | .str => 8

/-- CTF: alignment of a structure = max of `align(N)` and of the members' (element) alignments -/
def TStruct.effAlign (s : TStruct) : Nat :=
  s.members.foldl (fun a m => max a m.ty.align) s.align

/-- round `at` up to a multiple of `al` (`al ≥ 1`) -/
def alignNat (at_ al : Nat) : Nat := ((at_ + (al - 1)) / al) * al

/-- `n` bits from stream offset `at_`, least significant first (little endian) / most significant first
    (big endian), as a natural number -/
def readBitsLE (buf : Buf) (at_ : Nat) : Nat → Nat
  | 0 => 0
  | n + 1 => (if bitLE buf at_ then 1 else 0) + 2 * readBitsLE buf (at_ + 1) n

def readBitsBE (buf : Buf) (at_ : Nat) : Nat → Nat
  | 0 => 0
  | n + 1 => (if bitBE buf at_ then 2 ^ n else 0) + readBitsBE buf (at_ + 1) n

def readBits (bo : ByteOrder) (buf : Buf) (at_ n : Nat) : Nat :=
  match bo with
  | .le => readBitsLE buf at_ n
  | .be => readBitsBE buf at_ n

def signExtend (signed : Bool) (size : Nat) (v : Nat) : Int :=
  if signed && decide (size > 0) && v.testBit (size - 1) then (v : Int) - (2 : Int) ^ size else v

/-- bytes of a NUL-terminated string starting at byte `b` (fuel bounds the scan by the buffer) -/
def readCStr (buf : Buf) : Nat → Nat → Option (List Nat)
  | 0, _ => none
  | fuel + 1, b =>
    if b ≥ buf.length then none else
    let x := getB buf b
    if x = 0 then some [] else (readCStr buf fuel (b + 1)).map (x :: ·)

/-- one scalar: align, then read; `limit` is the end of the readable region in bits -/
def readScalar (bo : ByteOrder) (buf : Buf) (limit : Nat) (t : TScalar) (at_ : Nat) : Option (Leaf × Nat) :=
  let a := alignNat at_ t.align
  match t with
  | .int sg sz _ =>
    if a + sz ≤ limit then some (.num (signExtend sg sz (readBits bo buf a sz)), a + sz) else none
  | .float m e _ =>
    if a + (m + e) ≤ limit then some (.num (readBits bo buf a (m + e)), a + (m + e)) else none
  | .str =>
    match readCStr buf (buf.length + 1) (a / 8) with
    | some bytes => if a + 8 * (bytes.length + 1) ≤ limit then some (.str bytes, a + 8 * (bytes.length + 1)) else none
    | none => none

def readMany (bo : ByteOrder) (buf : Buf) (limit : Nat) (t : TScalar) : Nat → Nat → Option (List Leaf × Nat)
  | 0, at_ => some ([], at_)
  | n + 1, at_ =>
    match readScalar bo buf limit t at_ with
    | none => none
    | some (l, a) => (readMany bo buf limit t n a).map fun r => (l :: r.1, r.2)

def lenValue (scope : List (String × List Leaf)) : TLen → Option Nat
  | .lit n => some n
  | .ref name =>
    match scope.lookup name with
    | some (.num v :: _) => if v ≥ 0 then some v.toNat else none
    | _ => none

def lensProduct (scope : List (String × List Leaf)) : List TLen → Option Nat
  | [] => some 1
  | l :: ls =>
    match lenValue scope l, lensProduct scope ls with
    | some a, some b => some (a * b)
    | _, _ => none

/-- one member: arrays/sequences align first (CTF), then each element aligns and is read -/
def readMember (bo : ByteOrder) (buf : Buf) (limit : Nat) (scope : List (String × List Leaf)) (m : TMember)
    (at_ : Nat) : Option (List Leaf × Nat) :=
  match m.lens with
  | [] => (readScalar bo buf limit m.ty at_).map fun r => ([r.1], r.2)
  | lens =>
    match lensProduct scope lens with
    | none => none
    | some n => readMany bo buf limit m.ty n (alignNat at_ m.ty.align)

def readMembers (bo : ByteOrder) (buf : Buf) (limit : Nat) :
    List TMember → List (String × List Leaf) → Nat → Option (List (String × List Leaf) × Nat)
  | [], scope, at_ => some (scope.reverse, at_)
  | m :: ms, scope, at_ =>
    match readMember bo buf limit scope m at_ with
    | none => none
    | some (ls, a) => readMembers bo buf limit ms ((m.name, ls) :: scope) a

/-- a structure: align on its effective alignment, then its members in order -/
def readStruct (bo : ByteOrder) (buf : Buf) (limit : Nat) (s : TStruct) (at_ : Nat) :
    Option (List (String × List Leaf) × Nat) :=
  readMembers bo buf limit s.members [] (alignNat at_ s.effAlign)

end BVM

namespace BVM

/-! ### packets -/

structure DecodedEvent where
  name : String
  id : Nat
  header : List (String × List Leaf)
  streamCtx : List (String × List Leaf)
  ctx : List (String × List Leaf)
  fields : List (String × List Leaf)
  start : Nat
  end_ : Nat
deriving Repr

structure DecodedPacket where
  header : List (String × List Leaf)
  context : List (String × List Leaf)
  events : List DecodedEvent
  offContent : Nat
  content : Nat
deriving Repr

def leafNat (l : Option (List Leaf)) : Option Nat :=
  match l with
  | some (.num v :: _) => if v ≥ 0 then some v.toNat else none
  | _ => none

def optStruct (bo : ByteOrder) (buf : Buf) (limit : Nat) (s : Option Struct) (at_ : Nat) :
    Option (List (String × List Leaf) × Nat) :=
  match s with
  | some st => readStruct bo buf limit (tsdlStruct st) at_
  | none => some ([], at_)

/-- the event records of the content region; the event record type is found by the `id` field of the
    header (or is the only one of the stream) -/
def decodeEvents (bo : ByteOrder) (buf : Buf) (d : DST) (content : Nat) : Nat → Nat → Option (List DecodedEvent)
  | 0, _ => some []
  | fuel + 1, at_ =>
    if at_ ≥ content then some [] else
    match readStruct bo buf content (tsdlStruct d.erhStruct) at_ with
    | none => none
    | some (h, a1) =>
      let ert : Option ERT :=
        match leafNat (h.lookup "id") with
        | some i => d.erts.find? (fun e => e.id == i)
        | none => match d.erts with | [e] => some e | _ => none
      match ert with
      | none => none
      | some e =>
        match optStruct bo buf content d.ercc a1 with
        | none => none
        | some (cc, a2) =>
          match optStruct bo buf content e.sc a2 with
          | none => none
          | some (sc, a3) =>
            match optStruct bo buf content e.p a3 with
            | none => none
            | some (p, a4) =>
              let ev : DecodedEvent := ⟨e.name, e.id, h, cc, sc, p, at_, a4⟩
              if a4 = at_ then some [ev] else
              (decodeEvents bo buf d content fuel a4).map (ev :: ·)

/-- one packet of data stream type `d`, using only what the metadata says (`tsdlStruct` of the root
    structures, IDs, trace byte order) -/
def decodePacket (c : Cfg) (d : DST) (buf : Buf) : Option DecodedPacket :=
  let total := 8 * buf.length
  match readStruct c.bo buf total (tsdlStruct c.phStruct) 0 with
  | none => none
  | some (ph, a1) =>
    match readStruct c.bo buf total (tsdlStruct d.pcStruct) a1 with
    | none => none
    | some (pc, a2) =>
      match leafNat (pc.lookup "content_size") with
      | none => none
      | some content =>
        if content > total then none else
        (decodeEvents c.bo buf d content (content + 1) a2).map fun evs => ⟨ph, pc, evs, a2, content⟩

end BVM
