/-
  Model/Yaml.lean — the YAML tree the front end works on after PyYAML has loaded a file
  (`config_parse_common._yaml_load`: every mapping is a `collections.OrderedDict`, so key order is
  part of the value).  Mapping keys are strings (documents with other key kinds are only exercised
  implementation-side, see checks/c10.py).  Floats are opaque (their `repr`).
-/
namespace BVM

inductive Y where
  | null
  | bool (b : Bool)
  | int (i : Int)
  | float (r : String)
  | str (s : String)
  | seq (xs : List Y)
  | map (kvs : List (String × Y))
deriving Repr, Inhabited

abbrev KVs := List (String × Y)

namespace Y

mutual
def beq : Y → Y → Bool
  | .null, .null => true
  | .bool a, .bool b => a == b
  | .int a, .int b => a == b
  | .float a, .float b => a == b
  | .str a, .str b => a == b
  | .seq a, .seq b => beqL a b
  | .map a, .map b => beqM a b
  | _, _ => false
def beqL : List Y → List Y → Bool
  | [], [] => true
  | x :: xs, y :: ys => beq x y && beqL xs ys
  | _, _ => false
def beqM : List (String × Y) → List (String × Y) → Bool
  | [], [] => true
  | (k, x) :: xs, (k', y) :: ys => k == k' && beq x y && beqM xs ys
  | _, _ => false
end

mutual
theorem beq_eq : ∀ a b : Y, beq a b = true → a = b
  | .null, b => by cases b <;> simp [beq]
  | .bool a, b => by cases b <;> simp [beq]
  | .int a, b => by cases b <;> simp [beq]
  | .float a, b => by cases b <;> simp [beq]
  | .str a, b => by cases b <;> simp [beq]
  | .seq a, b => by
      cases b <;> simp [beq]
      exact beqL_eq a _
  | .map a, b => by
      cases b <;> simp [beq]
      exact beqM_eq a _
theorem beqL_eq : ∀ a b : List Y, beqL a b = true → a = b
  | [], b => by cases b <;> simp [beqL]
  | x :: xs, b => by
      cases b with
      | nil => simp [beqL]
      | cons y ys =>
        simp [beqL]
        intro h1 h2
        exact ⟨beq_eq x y h1, beqL_eq xs ys h2⟩
theorem beqM_eq : ∀ a b : List (String × Y), beqM a b = true → a = b
  | [], b => by cases b <;> simp [beqM]
  | (k, x) :: xs, b => by
      cases b with
      | nil => simp [beqM]
      | cons y ys =>
        obtain ⟨k', y⟩ := y
        simp [beqM]
        intro h0 h1 h2
        exact ⟨⟨h0, beq_eq x y h1⟩, beqM_eq xs ys h2⟩
end

mutual
theorem beq_refl : ∀ a : Y, beq a a = true
  | .null => by simp [beq]
  | .bool a => by simp [beq]
  | .int a => by simp [beq]
  | .float a => by simp [beq]
  | .str a => by simp [beq]
  | .seq a => by simp [beq]; exact beqL_refl a
  | .map a => by simp [beq]; exact beqM_refl a
theorem beqL_refl : ∀ a : List Y, beqL a a = true
  | [] => by simp [beqL]
  | x :: xs => by simp [beqL]; exact ⟨beq_refl x, beqL_refl xs⟩
theorem beqM_refl : ∀ a : List (String × Y), beqM a a = true
  | [] => by simp [beqM]
  | (k, x) :: xs => by simp [beqM]; exact ⟨beq_refl x, beqM_refl xs⟩
end

instance : DecidableEq Y := fun a b =>
  if h : beq a b = true then isTrue (beq_eq a b h)
  else isFalse (fun e => h (e ▸ beq_refl a))

def isNull : Y → Bool | .null => true | _ => false
def isStr : Y → Bool | .str _ => true | _ => false
def isMap : Y → Bool | .map _ => true | _ => false
def isSeq : Y → Bool | .seq _ => true | _ => false

end Y

/-! ### ordered-dictionary operations (`collections.OrderedDict`) -/

/-- `d.get(k)` / `d[k]` -/
def kvGet (k : String) : KVs → Option Y
  | [] => none
  | (k', v) :: r => if k' = k then some v else kvGet k r

/-- `k in d` -/
def kvHas (k : String) (m : KVs) : Bool := (kvGet k m).isSome

/-- `d[k] = v`: replaces in place when the key exists, appends otherwise -/
def kvSet (k : String) (v : Y) : KVs → KVs
  | [] => [(k, v)]
  | (k', v') :: r => if k' = k then (k', v) :: r else (k', v') :: kvSet k v r

/-- `del d[k]` (no-op when absent; a dictionary holds a key at most once, so every occurrence goes) -/
def kvErase (k : String) : KVs → KVs
  | [] => []
  | (k', v') :: r => if k' = k then kvErase k r else (k', v') :: kvErase k r

def kvKeys (m : KVs) : List String := m.map (·.1)

/-- `d.get(k)` where a `null` value counts as absent (`is None`) -/
def kvGetNN (k : String) (m : KVs) : Option Y :=
  match kvGet k m with
  | some .null => none
  | r => r

end BVM
