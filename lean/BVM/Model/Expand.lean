/-
  Model/Expand.lean — how a configuration document becomes its *effective* document
  (`config_parse_v3._Parser._parse` up to and including `_normalize_props`, and the stage functions
  of `config_parse_common._Parser` it uses), as pure functions over `Y`.

  Stages, in the order of `_parse`:
    1. `procInclude`  — `_process_node_include` at the five includable object kinds, children first,
                        bases in the listed order, the including object last; include stack; search
                        directories in order.
    2. `expandFts`    — `_expand_fts`: member short-form normalisation, alias resolution
                        (`_resolve_ft_alias`: resolved set + alias set threaded exactly as the code does),
                        inheritance (`_apply_ft_inheritance`).
    3. `subLogLevels` — `_sub_log_level_aliases`.
    4. `normProps`    — `_normalize_props`.

  The JSON-schema validations between the stages are not part of `expand` (they are `Model/Schema` +
  `accepts`, C09); `expand` says what the document becomes *if* every stage lets it through.  Shapes on
  which the Python would raise a non-configuration exception are `.error (.crash …)`.

  Recursion that follows alias names or file names (not sub-terms) is bounded by a fuel argument;
  `.error .fuel` is reported as inconclusive by the harness, never as a result.
-/
import BVM.Model.Patch
namespace BVM

inductive FErr
  | includeCycle (path : String)
  | includeNotFound (path : String)
  | unknownAlias (a : String)
  | aliasCycle (a : String)
  | unknownLogLevel (a : String)
  | crash (what : String)
  | shape (what : String)      -- a shape the schema stage would have rejected (model stops)
  | other (what : String)      -- configuration error raised by v2 conversion
  | fuel
deriving Repr, DecidableEq

def FErr.cls : FErr → String
  | .includeCycle _ => "include-cycle"
  | .includeNotFound _ => "include-not-found"
  | .unknownAlias _ => "unknown-alias"
  | .aliasCycle _ => "alias-cycle"
  | .unknownLogLevel _ => "unknown-log-level"
  | .crash _ => "crash"
  | .shape _ => "shape"
  | .other _ => "other"
  | .fuel => "fuel"

abbrev FR := Except FErr

/-! ### helpers over ordered maps -/

/-- apply `f` to the value of `k` if present -/
def modKey (k : String) (f : Y → FR Y) : KVs → FR KVs
  | [] => .ok []
  | (k', v) :: r =>
    if k' = k then do let v' ← f v; .ok ((k', v') :: r)
    else do let r' ← modKey k f r; .ok ((k', v) :: r')

/-- apply `f` to every value of a map (document order) -/
def mapVals (f : String → Y → FR Y) : KVs → FR KVs
  | [] => .ok []
  | (k, v) :: r => do let v' ← f k v; let r' ← mapVals f r; .ok ((k, v') :: r')

def mapSeq (f : Y → FR Y) : List Y → FR (List Y)
  | [] => .ok []
  | x :: r => do let x' ← f x; let r' ← mapSeq f r; .ok (x' :: r')

/-- stateful variants -/
def modKeyS {σ : Type} (k : String) (f : σ → Y → FR (Y × σ)) (s : σ) : KVs → FR (KVs × σ)
  | [] => .ok ([], s)
  | (k', v) :: r =>
    if k' = k then do let (v', s') ← f s v; .ok ((k', v') :: r, s')
    else do let (r', s') ← modKeyS k f s r; .ok ((k', v) :: r', s')

def mapValsS {σ : Type} (f : σ → String → Y → FR (Y × σ)) (s : σ) : KVs → FR (KVs × σ)
  | [] => .ok ([], s)
  | (k, v) :: r => do
    let (v', s1) ← f s k v
    let (r', s2) ← mapValsS f s1 r
    .ok ((k, v') :: r', s2)

def mapSeqS {σ : Type} (f : σ → Y → FR (Y × σ)) (s : σ) : List Y → FR (List Y × σ)
  | [] => .ok ([], s)
  | x :: r => do
    let (x', s1) ← f s x
    let (r', s2) ← mapSeqS f s1 r
    .ok (x' :: r', s2)

/-- apply to several keys in the given order -/
def modKeysS {σ : Type} (ks : List String) (f : σ → Y → FR (Y × σ)) (s : σ) (m : KVs) : FR (KVs × σ) :=
  match ks with
  | [] => .ok (m, s)
  | k :: r => do
    let (m', s') ← modKeyS k f s m
    modKeysS r f s' m'

/-- value of a map-valued node as key/values, or identity on anything else -/
def onMapS {σ : Type} (f : σ → KVs → FR (KVs × σ)) (s : σ) : Y → FR (Y × σ)
  | .map m => do let (m', s') ← f s m; .ok (.map m', s')
  | y => .ok (y, s)

/-! ### 1. inclusions -/

structure World where
  /-- the inclusion directories in search order (the package directory is the last one); each is a
      list of (file name, loaded content) -/
  dirs : List (List (String × Y))
  ignoreNotFound : Bool := false
deriving Repr

def findInDirs (path : String) : List (List (String × Y)) → Nat → Option (Nat × Y)
  | [], _ => none
  | d :: r, i =>
    match kvGet path d with
    | some y => some (i, y)
    | none => findInDirs path r (i + 1)

/-- `_get_include_paths` -/
def includePaths : Y → FR (List String)
  | .null => .ok []
  | .str s => .ok [s]
  | .seq xs => xs.mapM fun x => match x with
      | .str s => .ok s
      | _ => .error (.shape "$include item is not a string")
  | _ => .error (.shape "$include is neither a string nor a sequence (rejected by the pre-inclusion schema)")

inductive Kind
  | trace | traceType | clockType | dst | ert                -- barectf 3
  | meta2 | traceType2 | clockType2 | dst2 | ert2           -- barectf 2
deriving Repr, DecidableEq

inductive ChildSpec
  | single (k : Kind)
  | each (k : Kind)

/-- `process_children_include` of each `_process_*_node_include` -/
def Kind.children : Kind → List (String × ChildSpec)
  | .trace => [("type", .single .traceType)]
  | .traceType => [("clock-types", .each .clockType), ("data-stream-types", .each .dst)]
  | .dst => [("event-record-types", .each .ert)]
  | .meta2 => [("trace", .single .traceType2), ("clocks", .each .clockType2), ("streams", .each .dst2)]
  | .dst2 => [("events", .each .ert2)]
  | _ => []

def Kind.isV3 : Kind → Bool
  | .trace | .traceType | .clockType | .dst | .ert => true
  | _ => false

abbrev Stack := List (Nat × String)

/-- one iteration of the loop over the inclusion paths: `base` is the current base node (`None` before
    the first file), `rec` processes the inclusions of a loaded file (with the stack it is given) -/
def inclStep (rec : Stack → Y → FR Y) (W : World) (stack : Stack) (v3 : Bool) (base : Option Y) (p : String) :
    FR (Option Y) :=
  match findInDirs p W.dirs 0 with
  | none => if W.ignoreNotFound then .ok base else .error (.includeNotFound p)
  | some (di, content) =>
    if stack.contains (di, p) then .error (.includeCycle p) else do
    let ov ← rec ((di, p) :: stack) content
    match base with
    | none => .ok (some ov)
    | some b => .ok (some (patchNode v3 b ov))

/-- `process_children_include`: one child property -/
def childStep (rec : Kind → Y → FR Y) (m : KVs) (cs : String × ChildSpec) : FR KVs :=
  match cs.2 with
  | .single k' => modKey cs.1 (rec k') m
  | .each k' => modKey cs.1 (fun v => match v with
      | .map cm => do let cm' ← mapVals (fun _ c => rec k' c) cm; .ok (.map cm')
      | _ => .error (.shape s!"`{cs.1}` is not a mapping")) m

/-- the end of `_process_node_include`: nothing included → the node itself; otherwise the last overlay
    patches the accumulated base -/
def finishInclude (v3 : Bool) (base : Option Y) (last : KVs) : Y :=
  match base with
  | none => .map last
  | some b => patchNode v3 b (.map last)

/-- `_process_node_include(last_overlay_node, …)` for an object of kind `kd` -/
def procInclude (W : World) : Nat → Stack → Kind → Y → FR Y
  | 0, _, _, _ => .error .fuel
  | fuel + 1, stack, kd, node =>
    match node with
    | .map m0 => do
      -- children first
      let m1 ← kd.children.foldlM (childStep (fun k' c => procInclude W fuel stack k' c)) m0
      match kvGet "$include" m1 with
      | none => .ok (.map m1)
      | some inc => do
        let paths ← includePaths inc
        let base ← paths.foldlM (inclStep (fun st c => procInclude W fuel st kd c) W stack kd.isV3) none
        .ok (finishInclude kd.isV3 base (kvErase "$include" m1))
    | _ => .error (.shape "includable object is not a mapping")

/-! ### 2. field types: member normalisation, aliases, inheritance -/

/-- `_ft_prop_names` -/
def ftPropNames : List String := ["$inherit", "inherit", "value-type", "element-type", "element-field-type"]

/-- `_normalize_struct_ft_member_nodes.normalize_members_node` / `.normalize_struct_ft_member_nodes` -/
def normMembers : Nat → List Y → FR (List Y)
  | 0, _ => .error .fuel
  | fuel + 1, ms => mapSeq (fun mem => match mem with
      | .map [(name, val)] =>
        let rest : KVs := []
        let val' := match val with
          | .str s => Y.map [("field-type", .str s)]
          | v => v
        -- normalize_struct_ft_member_nodes(member_node[member_name], 'field-type')
        match val' with
        | .map vm => do
          let vm' ← modKey "field-type" (fun ft => match ft with
            | .map fm =>
              match kvGetNN "members" fm with
              | none => .ok (.map fm)
              | some (.seq ms') => do let ms'' ← normMembers fuel ms'; .ok (.map (kvSet "members" (.seq ms'') fm))
              | some _ => .error (.crash "members is not a sequence")
            | y => .ok y) vm
          .ok (.map ((name, .map vm') :: rest))
        | _ => .ok (.map ((name, val') :: rest))
      | other => .ok other     -- not a single-property mapping: left to the schema (finding F30, repaired)
      ) ms

/-- `normalize_struct_ft_member_nodes(parent, key)` on the value of `key` -/
def normFt (fuel : Nat) : Y → FR Y
  | .map fm =>
    match kvGetNN "members" fm with
    | none => .ok (.map fm)
    | some (.seq ms) => do let ms' ← normMembers fuel ms; .ok (.map (kvSet "members" (.seq ms') fm))
    | some _ => .error (.crash "members is not a sequence")
  | y => .ok y

structure ASt where
  aliases : KVs
  resolved : List String
  aset : List String
deriving Repr

/-- v3: the field type slots of a `members` sequence (`_struct_ft_member_fts_iter`); `f` is applied to
    the slot's value when the slot exists -/
def overMembers3 {σ : Type} (f : σ → Y → FR (Y × σ)) (s : σ) : Y → FR (Y × σ)
  | .seq ms => do
    let (ms', s') ← mapSeqS (fun s mem => match mem with
      | .map ((name, val) :: rest) =>
        match val with
        | .map vm => do
          let (vm', s') ← modKeyS "field-type" f s vm
          .ok (.map ((name, .map vm') :: rest), s')
        | _ => do
          let (val', s') ← f s val
          .ok (.map ((name, val') :: rest), s')
      | .map [] => .error (.crash "IndexError: empty member node")
      | _ => .error (.crash "assert type(member_node) is OrderedDict")) s ms
    .ok (.seq ms', s')
  | _ => .error (.crash "assert self._major_version == 2")

/-- v2: the field type slots of a `fields` mapping -/
def overFields2 {σ : Type} (f : σ → Y → FR (Y × σ)) (s : σ) : Y → FR (Y × σ)
  | .map fm => do
    let (fm', s') ← mapValsS (fun s _ v => f s v) s fm
    .ok (.map fm', s')
  | .seq _ => .error (.crash "assert self._major_version == 3")
  | _ => .error (.crash "assert type(node) is OrderedDict")

def membersKey (v3 : Bool) : String := if v3 then "members" else "fields"

def overMembers {σ : Type} (v3 : Bool) (f : σ → Y → FR (Y × σ)) (s : σ) (y : Y) : FR (Y × σ) :=
  if v3 then overMembers3 f s y else overFields2 f s y

/-- `_resolve_ft_alias` on the value found at `parent_node[key]` -/
def resolveVal (v3 : Bool) : Nat → ASt → Y → FR (Y × ASt)
  | 0, _, _ => .error .fuel
  | fuel + 1, st, v =>
    match v with
    | .null => .ok (.null, st)
    | .str a =>
      match kvGet a st.aliases with
      | none => .error (.unknownAlias a)
      | some av =>
        if st.resolved.contains a then .ok (av, st)
        else if st.aset.contains a then .error (.aliasCycle a)
        else do
          let st1 := { st with aset := a :: st.aset }
          let (av', st2) ← resolveVal v3 fuel st1 av
          let st3 := { st2 with aliases := kvSet a av' st2.aliases, resolved := a :: st2.resolved }
          .ok (av', st3)
    | .map node => do
      let (n1, s1) ← modKeysS ftPropNames (resolveVal v3 fuel) st node
      let (n2, s2) ← modKeyS (membersKey v3) (fun s y => if y.isNull then .ok (y, s) else
          overMembers v3 (resolveVal v3 fuel) s y) s1 n1
      .ok (.map n2, s2)
    -- not a field type object (boolean feature value, number, sequence): nothing to resolve
    | y => .ok (y, st)

/-- `_apply_ft_inheritance` on the value found at `parent_node[key]` -/
def inheritVal (v3 : Bool) : Nat → Y → FR Y
  | 0, _ => .error .fuel
  | fuel + 1, v =>
    match v with
    | .null => .ok .null
    | .map node => do
      let f : Unit → Y → FR (Y × Unit) := fun _ y => do let y' ← inheritVal v3 fuel y; .ok (y', ())
      let (n1, _) ← modKeysS ftPropNames f () node
      let (n2, _) ← modKeyS (membersKey v3) (fun s y => if y.isNull then .ok (y, s) else overMembers v3 f s y) () n1
      -- barectf 2.1: `inherit` renamed `$inherit`
      let n3 ← match kvGet "inherit" n2 with
        | some iv =>
          if kvHas "$inherit" n2 then .error (.crash "assert '$inherit' not in node")
          else .ok (kvErase "inherit" (kvSet "$inherit" iv n2))
        | none => .ok n2
      match kvGet "$inherit" n3 with
      | none => .ok (.map n3)
      | some (.map base) => do
        let base' ← inheritVal v3 fuel (.map base)
        .ok (patchNode v3 base' (.map (kvErase "$inherit" n3)))
      | some _ => .error (.other "Inherited field type is not a field type object")
    -- not a field type object: no possible inheritance
    | y => .ok y

/-! the places of a barectf 3 trace type node that hold a field type -/

def ttFeatureKeys : List String := ["magic-field-type", "uuid-field-type", "data-stream-type-id-field-type"]
def pktFeatureKeys : List String :=
  ["total-size-field-type", "content-size-field-type", "beginning-timestamp-field-type",
   "end-timestamp-field-type", "discarded-event-records-counter-snapshot-field-type",
   "sequence-number-field-type"]
def erFeatureKeys : List String := ["type-id-field-type", "timestamp-field-type"]

/-- `for member_node in extra: member_node = list(member_node.values())[0]; f(member_node, 'field-type')` -/
def overExtraMembers {σ : Type} (f : σ → Y → FR (Y × σ)) (s : σ) : Y → FR (Y × σ)
  | .seq ms => do
    let (ms', s') ← mapSeqS (fun s mem => match mem with
      | .map [(name, .map vm)] => do
        let (vm', s') ← modKeyS "field-type" f s vm
        .ok (.map [(name, .map vm')], s')
      | other => .ok (other, s)     -- not a single-property mapping of an object: left to the schema
      ) s ms
    .ok (.seq ms', s')
  | .null => .ok (.null, s)
  | _ => .error (.crash "extra members is not a sequence")

/-- runs `f` over every field type slot of a trace type node in the order of `_expand_ft_aliases` /
    `_apply_fts_inheritance`; `g` guards a slot by the kind of its value; `em` handles the
    `packet-context-field-type-extra-members` node -/
def overSlots3 {σ : Type} (g : Y → Bool) (f : σ → Y → FR (Y × σ)) (em : σ → Y → FR (Y × σ)) (s : σ) (tt : KVs) :
    FR (KVs × σ) := do
  let fg : σ → Y → FR (Y × σ) := fun s y => if g y then f s y else .ok (y, s)
  let (tt1, s1) ← modKeyS "$features" (onMapS (modKeysS ttFeatureKeys fg)) s tt
  modKeyS "data-stream-types" (onMapS (mapValsS (fun s _ dstv => onMapS (fun s dst => do
      let (d1, s1) ← modKeyS "$features" (onMapS (fun s feat => do
          let (f1, s1) ← modKeyS "packet" (onMapS (modKeysS pktFeatureKeys fg)) s feat
          modKeyS "event-record" (onMapS (modKeysS erFeatureKeys fg)) s1 f1)) s dst
      let (d2, s2) ← modKeyS "packet-context-field-type-extra-members" em s1 d1
      let (d3, s3) ← modKeyS "event-record-common-context-field-type" fg s2 d2
      modKeyS "event-record-types" (onMapS (mapValsS (fun s _ ertv => onMapS (fun s ert => do
          let (e1, s1) ← modKeyS "specific-context-field-type" fg s ert
          modKeyS "payload-field-type" fg s1 e1) s ertv))) s3 d3) s dstv))) s1 tt1

/-- the usual treatment of the extra members: `f` (guarded) on each member's `field-type` -/
def emSlots {σ : Type} (g : Y → Bool) (f : σ → Y → FR (Y × σ)) : σ → Y → FR (Y × σ) :=
  overExtraMembers (fun s y => if g y then f s y else .ok (y, s))

def stateless (f : Y → FR Y) : Unit → Y → FR (Y × Unit) := fun _ y => do let y' ← f y; .ok (y', ())

def isMapOrStr (y : Y) : Bool := y.isMap || y.isStr

/-- `_normalize_struct_ft_member_nodes` (aliases first, then every slot; the extra members are normalised
    as a members sequence: `normalize_members_node(pkt_ctx_ft_extra_members_node)`) -/
def normalizeMembers3 (fuel : Nat) (tt : KVs) : FR KVs := do
  let tt1 ← modKey "$field-type-aliases" (fun a => match a with
      | .map am => do let am' ← mapVals (fun _ v => normFt fuel v) am; .ok (.map am')
      | y => .ok y) tt
  let (tt2, _) ← overSlots3 (fun _ => true) (stateless (normFt fuel))
      (stateless (fun em => match em with
        | .seq ms => do let ms' ← normMembers fuel ms; .ok (.seq ms')
        | .null => .ok .null
        | _ => .error (.crash "extra members is not a sequence"))) () tt1
  .ok tt2

/-- `for alias in list(ft_aliases_node): _resolve_ft_alias_from(ft_aliases_node, ft_aliases_node, alias)` -/
def resolveAllAliases (v3 : Bool) (fuel : Nat) : List String → ASt → FR ASt
  | [], st => .ok st
  | a :: r, st =>
    match kvGet a st.aliases with
    | none => resolveAllAliases v3 fuel r st
    | some v => do
      let (v', st') ← resolveVal v3 fuel { st with aset := [] } v
      resolveAllAliases v3 fuel r { st' with aliases := kvSet a v' st'.aliases }

/-- `_expand_fts` on the trace type node -/
def expandFts3 (fuel : Nat) (tt : KVs) : FR KVs :=
  match kvGetNN "$field-type-aliases" tt with
  | none => .ok (kvErase "$field-type-aliases" tt)
  | some (.map aliases0) => do
    let tt1 ← normalizeMembers3 fuel tt
    let aliases := match kvGet "$field-type-aliases" tt1 with | some (.map a) => a | _ => aliases0
    -- aliases: each top-level slot starts with a fresh alias set
    let f : ASt → Y → FR (Y × ASt) := fun st y => do
      let (y', st') ← resolveVal true fuel { st with aset := [] } y
      .ok (y', st')
    let (tt2, st2) ← overSlots3 isMapOrStr f (emSlots isMapOrStr f) ⟨aliases, [], []⟩ tt1
    -- every alias is resolved, used or not (unknown alias names and cycles are always reported)
    let _ ← resolveAllAliases true fuel (kvKeys st2.aliases) st2
    let tt3 := kvErase "$field-type-aliases" tt2
    let (tt4, _) ← overSlots3 Y.isMap (stateless (inheritVal true fuel)) (emSlots Y.isMap (stateless (inheritVal true fuel))) () tt3
    .ok tt4
  | some _ => .error (.shape "$field-type-aliases is not a mapping")

/-! ### 3. log level aliases -/

def subLogLevels (tt : KVs) : FR KVs :=
  let tt1 := kvErase "$log-level-aliases" tt
  match kvGetNN "$log-level-aliases" tt with
  | none => .ok tt1
  | some (.map lla) =>
    modKey "data-stream-types" (fun dsts => match dsts with
      | .map dm => do
        let dm' ← mapVals (fun _ dst => match dst with
          | .map d => do
            let d' ← modKey "event-record-types" (fun erts => match erts with
              | .map em => do
                let em' ← mapVals (fun _ ert => match ert with
                  | .map e => do
                    let e' ← modKey "log-level" (fun ll => match ll with
                      | .str a => match kvGet a lla with
                        | some v => .ok v
                        | none => .error (.unknownLogLevel a)
                      | y => .ok y) e
                    .ok (.map e')
                  | _ => .error (.shape "event record type is not a mapping")) em
                .ok (.map em')
              | _ => .error (.shape "event-record-types is not a mapping")) d
            .ok (.map d')
          | _ => .error (.shape "data stream type is not a mapping")) dm
        .ok (.map dm')
      | _ => .error (.shape "data-stream-types is not a mapping")) tt1
  | some _ => .error (.shape "$log-level-aliases is not a mapping")

/-! ### 4. property normalisation -/

def normByteOrder : Y → Y
  | .str "be" | .str "big" => .str "big-endian"
  | .str "le" | .str "little" => .str "little-endian"
  | y => y

def normClass : String → String
  | "uint" | "unsigned-int" => "unsigned-integer"
  | "sint" | "signed-int" => "signed-integer"
  | "uenum" | "unsigned-enum" => "unsigned-enumeration"
  | "senum" | "signed-enum" => "signed-enumeration"
  | "str" => "string"
  | "struct" => "structure"
  | s => s

def normBase : String → String
  | "bin" => "binary"
  | "oct" => "octal"
  | "dec" => "decimal"
  | "hex" => "hexadecimal"
  | s => s

def normScalarProp (k : String) : Y → Y
  | .str s => if k = "class" then .str (normClass s) else if k = "preferred-display-base" then .str (normBase s) else .str s
  | y => y

mutual
/-- the `_props` walk of `_normalize_props`: children first; a `null` property is deleted; `class` and
    `preferred-display-base` spellings are made canonical; sequences are walked, their items kept -/
def normProps : Y → Y
  | .map m => .map (normPropsM m)
  | .seq xs => .seq (normPropsL xs)
  | y => y
def normPropsM : KVs → KVs
  | [] => []
  | (k, v) :: r =>
    match v with
    | .null => normPropsM r
    | _ => (k, normScalarProp k (normProps v)) :: normPropsM r
def normPropsL : List Y → List Y
  | [] => []
  | x :: r => normProps x :: normPropsL r
end

def traceByteOrderKey (tt : KVs) : String :=
  if kvHas "native-byte-order" tt then "native-byte-order" else "trace-byte-order"

/-- `_normalize_props` on the trace node -/
def normalizeTrace (trace : KVs) : FR KVs :=
  match kvGet "type" trace with
  | some (.map tt) =>
    let k := traceByteOrderKey tt
    match kvGet k tt with
    | none => .error (.crash "KeyError: trace byte order")
    | some bo =>
      let tt1 := kvSet k (normByteOrder bo) tt
      let tt2 := normPropsM tt1
      let trace1 := kvSet "type" (.map tt2) trace
      .ok (match kvGet "environment" trace1 with
        | some .null => kvErase "environment" trace1
        | _ => trace1)
  | _ => .error (.shape "trace type is not a mapping")

/-! ### the barectf 3 pipeline -/

def defaultFuel : Nat := 4096

/-- the effective configuration node of a barectf 3 configuration node -/
def expand3 (W : World) (fuel : Nat) (cfg : KVs) : FR KVs :=
  match kvGet "trace" cfg with
  | none => .error (.shape "no trace")
  | some tr => do
    let tr1 ← procInclude W fuel [] .trace tr
    match tr1 with
    | .map trm =>
      match kvGet "type" trm with
      | some (.map tt) => do
        let tt1 ← expandFts3 fuel tt
        let tt2 ← subLogLevels tt1
        let trm2 ← normalizeTrace (kvSet "type" (.map tt2) trm)
        .ok (kvSet "trace" (.map trm2) cfg)
      | _ => .error (.shape "trace type is not a mapping")
    | _ => .error (.shape "trace is not a mapping")

end BVM
