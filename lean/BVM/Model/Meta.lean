/-
  Model/Meta.lean — the descriptive part of templates/metadata/metadata.j2 and template.py:
  `_filt_escape_dq`, the Jinja truthiness tests that decide whether an attribute line is emitted, the
  rendering of environment values and enumeration ranges.
-/
namespace BVM

/-- `_filt_escape_dq`: backslash, double quote (and, since the fix, new-line) are escaped -/
def escapeDqL : List Char → List Char
  | [] => []
  | '\\' :: r => '\\' :: '\\' :: escapeDqL r
  | '"' :: r => '\\' :: '"' :: escapeDqL r
  | '\n' :: r => '\\' :: 'n' :: escapeDqL r
  | c :: r => c :: escapeDqL r

def escapeDq (s : String) : String := String.ofList (escapeDqL s.toList)

/-- what a TSDL reader does with the body of a string literal (the escapes barectf emits) -/
def unescapeDqL : List Char → List Char
  | [] => []
  | '\\' :: 'n' :: r => '\n' :: unescapeDqL r
  | '\\' :: c :: r => c :: unescapeDqL r
  | c :: r => c :: unescapeDqL r

/-- a position of the escaped text that would end the literal early or break the line: an unescaped
    double quote or a raw new-line -/
def bareQuoteL : List Char → Bool
  | [] => false
  | '\\' :: _ :: r => bareQuoteL r
  | '"' :: _ => true
  | '\n' :: _ => true
  | _ :: r => bareQuoteL r

/-- Jinja/Python truthiness of an optional integer (`{% if x %}`): none and 0 are false -/
def truthyInt : Option Int → Bool
  | none => false
  | some v => v != 0

def truthyStr : Option String → Bool
  | none => false
  | some s => s != ""

/-- the `loglevel = N;` line of an event block: metadata.j2 tests `ert.log_level is not none` -/
def logLevelLine (ll : Option Int) : Option String :=
  match ll with
  | none => none
  | some v => some ("loglevel = " ++ toString v ++ ";")

/-- the `description = "…";` line of a clock block: `{% if clk_type.description %}` -/
def descriptionLine (d : Option String) : Option String :=
  if truthyStr d then some ("description = \"" ++ escapeDq (d.getD "") ++ "\";") else none

/-- an environment entry: numbers verbatim, strings quoted and escaped (`value is number`) -/
inductive EnvVal | int (v : Int) | str (s : String)

def envLine (name : String) : EnvVal → String
  | .int v => name ++ " = " ++ toString v ++ ";"
  | .str s => name ++ " = \"" ++ escapeDq s ++ "\";"

/-- an enumeration range: a single value, or `lower ... upper` -/
def rangeStr (lo hi : Int) : String :=
  if lo = hi then toString lo else toString lo ++ " ... " ++ toString hi

/-- `disp_base_int` -/
def baseInt : String → Nat
  | "bin" => 2 | "oct" => 8 | "hex" => 16 | _ => 10

end BVM
