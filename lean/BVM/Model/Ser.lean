/-
  Model/Ser.lean — the two interpretations of an operation tree:
  the size pass (templates/c/size-*.j2, inside `_er_size_*`) and the serialise pass
  (templates/c/serialize-*.j2, `_write_c_str`).  All arithmetic on `at` is `uint32_t`
  (mod 2^32), as in the generated C.
-/
import BVM.Model.Ops
namespace BVM

def u32 (x : Nat) : Nat := x % 4294967296

/-- `a - b` in `uint32_t` arithmetic, for `a, b < 2^32` (written without adding the modulus to a variable
    term, which the kernel's unary `Nat.add` cannot compare cheaply) -/
def subU32 (a b : Nat) : Nat := if b ≤ a then a - b else 4294967296 - (b - a)

/-- one scalar argument value: a number (integers, enumerations; reals as their bit pattern)
    or a C string (bytes without the terminating NUL) -/
inductive Leaf
  | num (v : Int)
  | str (b : List Nat)
deriving Repr, DecidableEq

def Leaf.toInt : Leaf → Int
  | .num v => v
  | .str _ => 0

def Leaf.bytes : Leaf → List Nat
  | .num _ => []
  | .str b => b

/-- arguments of one root structure: leaves per member name (arrays: element leaves in
    row-major order) -/
abbrev Args := List (String × List Leaf)

def Args.get (a : Args) (n : String) : List Leaf := (a.lookup n).getD []

def iterN {σ : Type} (f : σ → σ) : Nat → σ → σ
  | 0, s => s
  | n + 1, s => iterN f n (f s)

/-! ### size pass -/

structure SizeSt where
  at_ : Nat
  leaves : List Leaf

def SizeSt.pop (s : SizeSt) : Leaf × SizeSt :=
  match s.leaves with
  | [] => (.num 0, s)
  | l :: ls => (l, { s with leaves := ls })

def sizeAlign (al : Option Nat) (s : SizeSt) : SizeSt :=
  match al with
  | some a => { s with at_ := alignUp s.at_ a }
  | none => s

def sizeElem : EOp → SizeSt → SizeSt
  | .leaf al w, s =>
    let s := sizeAlign al s
    let p := s.pop
    match w.sc with
    | .str => { p.2 with at_ := u32 (s.at_ + u32 (8 * u32 (p.1.bytes.length + 1))) }
    | sc => { p.2 with at_ := u32 (s.at_ + sc.size) }
  | .loop al n body, s =>
    iterN (sizeElem body) n (sizeAlign al s)

/-- `pfx` is the root's C parameter prefix (`cc`, `sc`, `p`, `pc`, …): the argument of member `n`
    is the parameter `<pfx>_<n>` -/
def sizeMember (pfx : String) (args : Args) (m : MOp) (at_ : Nat) : Nat :=
  match m with
  | .el name e => (sizeElem e ⟨at_, args.get (pfx ++ "_" ++ name)⟩).at_
  | .dloop name al ln body =>
    let cnt := u32 (((args.get (pfx ++ "_" ++ ln)).headD (.num 0)).toInt.toNat)
    (iterN (sizeElem body) cnt (sizeAlign al ⟨at_, args.get (pfx ++ "_" ++ name)⟩)).at_

def sizeRoot (pfx : String) (r : RootOp) (args : Args) (at_ : Nat) : Nat :=
  r.members.foldl (fun a m => sizeMember pfx args m a) (sizeAlign r.al ⟨at_, []⟩).at_

/-! ### serialise pass -/

/-- per-call values the specialised templates read -/
structure SerEnv where
  bo : ByteOrder
  fast : Bool            -- trace type class is not TraceTypeWithUnknownNativeByteOrder
  uuid : List Nat
  dstId : Nat
  ertId : Nat
  ts : Nat
  pktSize : Nat
  seqNum : Nat

structure SerSt where
  buf : Buf
  at_ : Nat
  saved : List (String × Nat)
  stores : List (Nat × Nat)     -- (first byte, number of bytes), newest first
  oob : Bool
  leaves : List Leaf

def SerSt.pop (s : SerSt) : Leaf × SerSt :=
  match s.leaves with
  | [] => (.num 0, s)
  | l :: ls => (l, { s with leaves := ls })

def serAlign (al : Option Nat) (s : SerSt) : SerSt :=
  match al with
  | some a => { s with at_ := alignUp s.at_ a }
  | none => s

/-- record a store of `n` bytes at byte `b`; out of the buffer ⇒ `oob` -/
def SerSt.store (s : SerSt) (b n : Nat) (newBuf : Buf) : SerSt :=
  if b + n ≤ s.buf.length then { s with buf := newBuf, stores := (b, n) :: s.stores }
  else { s with stores := (b, n) :: s.stores, oob := true }

/-- serialize-write-bit-array-statements.j2 -/
def writeBits (env : SerEnv) (sc : Scalar) (oib : Option Nat) (v : Int) (s : SerSt) : SerSt :=
  let size := sc.size
  let base := s.at_ / 8
  let s' :=
    if sc.align % 8 = 0 ∧ (size = 8 ∨ size = 16 ∨ size = 32 ∨ size = 64) ∧ env.fast then
      let x := (v % (2 : Int) ^ size).toNat
      s.store base (size / 8) (memcpyLE (size / 8) s.buf base x)
    else
      let start := match oib with
        | some k => k
        | none => s.at_ % 8
      s.store (base + start / 8) ((start + size + 7) / 8 - start / 8)
        (bfWrite env.bo sc.carrier s.buf base start size (sc.carrier.conv v))
  { s' with at_ := u32 (s.at_ + size) }

def memcpyBytes : List Nat → Buf → Nat → Buf
  | [], buf, _ => buf
  | x :: xs, buf, b => memcpyBytes xs (setB buf b x) (b + 1)

/-- `_write_c_str` -/
def writeStr (bytes : List Nat) (s : SerSt) : SerSt :=
  let sz := u32 (bytes.length + 1)
  let base := s.at_ / 8
  let s' := s.store base (bytes.length + 1) (memcpyBytes (bytes ++ [0]) s.buf base)
  { s' with at_ := u32 (s.at_ + u32 (8 * sz)) }

def envVal (env : SerEnv) : WSrc → Int
  | .magic => 0xc1fc1fc1
  | .dstId => env.dstId
  | .pktSize => env.pktSize
  | .seqNum => env.seqNum
  | .tsBegin => env.ts
  | .ts => env.ts
  | .ertId => env.ertId
  | _ => 0

def serWrite (env : SerEnv) (w : Write) (s : SerSt) : SerSt :=
  match w.src with
  | .arg =>
    let p := s.pop
    match w.sc with
    | .str => writeStr p.1.bytes p.2
    | sc => writeBits env sc w.oib p.1.toInt p.2
  | .skipSave name =>
    { s with saved := (name, s.at_) :: s.saved, at_ := u32 (s.at_ + w.sc.size) }
  | .uuid =>
    -- serialize-write-uuid-statements.j2: its own `_ALIGN(ctx->at, 8)`, memcpy of 16 bytes
    let a := alignUp s.at_ 8
    let s1 := { s with at_ := a }
    let s2 := s1.store (a / 8) 16 (memcpyBytes env.uuid s1.buf (a / 8))
    { s2 with at_ := u32 (a + 128) }
  | src => writeBits env w.sc w.oib (envVal env src) s

def serElem (env : SerEnv) : EOp → SerSt → SerSt
  | .leaf al w, s => serWrite env w (serAlign al s)
  | .loop al n body, s => iterN (serElem env body) n (serAlign al s)

def serMember (env : SerEnv) (pfx : String) (args : Args) (m : MOp) (s : SerSt) : SerSt :=
  match m with
  | .el name e => serElem env e { s with leaves := args.get (pfx ++ "_" ++ name) }
  | .dloop name al ln body =>
    let cnt := u32 (((args.get (pfx ++ "_" ++ ln)).headD (.num 0)).toInt.toNat)
    iterN (serElem env body) cnt (serAlign al { s with leaves := args.get (pfx ++ "_" ++ name) })

def serRoot (env : SerEnv) (pfx : String) (r : RootOp) (args : Args) (s : SerSt) : SerSt :=
  r.members.foldl (fun a m => serMember env pfx args m a) (serAlign r.al s)

end BVM
