/-
  Model/Build.lean — what `config_parse_v3._Parser._create_config` checks while it builds the
  configuration objects from the effective configuration node (the "semantic checks done in Python"),
  with Python's unguarded subscripts made explicit: a missing key or a value of an unexpected kind is
  `.error (.crash …)` (the real code would raise KeyError / TypeError / AssertionError), a rejected
  configuration is `.error (.other …)`.

  `accepts3` = the staged pipeline of `_parse`: schema stage, inclusions, schema stage, field type
  expansion, schema stage, log level substitution, schema stage (effective), normalisation, these checks;
  the schema stages interpret `Gen.store`, the translation of /repo's schema files.
-/
import BVM.Model.Expand
import BVM.Model.Schema
import BVM.Gen.Keywords
namespace BVM

/-- the `ctf_keywords` set of `_validate_iden`, regenerated from config_parse_v3.py on every run -/
def ctfKeywords : List String := Gen.ctfKeywords

/-- `_validate_iden` (the pattern part of identifiers is the schemas' business) -/
def validateIden (s : String) : FR Unit :=
  if ctfKeywords.contains s then .error (.other s!"not a valid identifier: {s}") else .ok ()

/-- `_validate_alignment`: `(a & (a - 1)) != 0` is an error -/
def validateAlignment (a : Int) : FR Unit :=
  if a < 1 then .error (.crash "assert alignment >= 1")
  else if (a.toNat &&& (a.toNat - 1)) ≠ 0 then .error (.other s!"Invalid alignment (not a power of two): {a}")
  else .ok ()

/-- `_alignment_prop` -/
def alignmentProp (m : KVs) (k : String) : FR Unit :=
  match kvGetNN k m with
  | none => .ok ()
  | some (.int a) => validateAlignment a
  | some _ => .error (.crash "TypeError: alignment")

def reqK (k : String) (m : KVs) : FR Y :=
  match kvGet k m with
  | some v => .ok v
  | none => .error (.crash s!"KeyError: {k}")

/-- the kinds of field types `_create_fts` returns, as far as the checks care -/
inductive FtKind | int (size : Int) | real | str | sarr | darr | struct
deriving Repr, DecidableEq

mutual
/-- `_create_fts(ft_node)` -/
def createFt : Nat → Y → FR FtKind
  | 0, _ => .error .fuel
  | fuel + 1, v =>
    match v with
    | .map m => do
      let cls ← reqK "class" m
      match cls with
      | .str "unsigned-integer" | .str "signed-integer" | .str "unsigned-enumeration" | .str "signed-enumeration" => do
        -- preferred display base lookup
        match kvGet "preferred-display-base" m with
        | none => pure ()
        | some (.str "binary") | some (.str "octal") | some (.str "decimal") | some (.str "hexadecimal") => pure ()
        | some _ => Except.error (.crash "KeyError: preferred-display-base")
        alignmentProp m "alignment"
        let sz ← reqK "size" m
        match cls with
        | .str "unsigned-enumeration" | .str "signed-enumeration" =>
          let mp ← reqK "mappings" m
          match mp with
          | .map mm =>
            mm.forM fun (_, rs) => match rs with
              | .seq items => items.forM fun it => match it with
                | .int _ => pure ()
                | .seq (_ :: _ :: _) => pure ()
                | .seq _ => Except.error (.crash "IndexError: range")
                | _ => Except.error (.crash "assert type(range_node) is int")
              | _ => Except.error (.crash "TypeError: mapping is not iterable")
          | _ => Except.error (.crash "AttributeError: mappings.items")
        | _ => pure ()
        match sz with
        | .int n => .ok (.int n)
        | _ => .ok (.int 0)
      | .str "real" => do
        alignmentProp m "alignment"
        let _ ← reqK "size" m
        .ok .real
      | .str "string" => .ok .str
      | .str "static-array" => do
        let eft ← reqK "element-field-type" m
        let ek ← createFt fuel eft
        match ek with
        | .struct | .darr => Except.error (.other "Nested structure and dynamic array field types are not supported")
        | _ => pure ()
        let _ ← reqK "length" m
        .ok .sarr
      | .str "dynamic-array" => do
        let eft ← reqK "element-field-type" m
        let ek ← createFt fuel eft
        match ek with
        | .struct | .darr => Except.error (.other "Nested structure and dynamic array field types are not supported")
        | _ => pure ()
        .ok .darr
      | .str "structure" => do
        alignmentProp m "minimum-alignment"
        match kvGetNN "members" m with
        | none => .ok .struct
        | some (.seq ms) => do
          createMembers fuel ms []
          .ok .struct
        | some _ => Except.error (.crash "TypeError: members")
      | _ => Except.error (.crash "KeyError: class name")
    | _ => .error (.crash "TypeError: field type node is not a mapping")
/-- `_create_struct_ft_members` -/
def createMembers : Nat → List Y → List String → FR Unit
  | 0, _, _ => .error .fuel
  | _ + 1, [], _ => .ok ()
  | fuel + 1, mem :: rest, seen =>
    match mem with
    | .map ((name, mv) :: _) => do
      if seen.contains name then Except.error (.other s!"Duplicate member `{name}`")
      validateIden name
      let mm ← match mv with
        | .map mm => pure mm
        | _ => Except.error (.crash "TypeError: member node")
      let ft ← reqK "field-type" mm
      let ftm ← match ft with
        | .map ftm => pure ftm
        | _ => Except.error (.crash "TypeError: field type node")
      let cls ← reqK "class" ftm
      if cls = .str "structure" then Except.error (.other "Nested structure field types are not supported")
      let k ← createFt fuel ft
      -- a dynamic array member brings its generated length member `__<name>_len` (finding F31, repaired)
      let lenName := "__" ++ name ++ "_len"
      if k = .darr ∧ seen.contains lenName then
        Except.error (.other s!"Duplicate member `{lenName}`")
      createMembers fuel rest (if k = .darr then lenName :: name :: seen else name :: seen)
    | .map [] => .error (.crash "IndexError: empty member node")
    | _ => .error (.crash "AttributeError: member node")
end

/-- `_feature_ft(parent, key, none)`: `none` (absent → the default passed), `some none` disabled,
    `some (some k)` a field type (true → the default 64-bit unsigned integer) -/
def featureFt (fuel : Nat) (m : KVs) (k : String) (dflt : Option FtKind) : FR (Option FtKind) :=
  match kvGet k m with
  | none => .ok dflt
  | some .null => .error (.crash "assert ft_node is not None")
  | some (.bool true) => .ok (some (.int 64))
  | some (.bool false) => .ok none
  | some (.map fm) => do let r ← createFt fuel (.map fm); .ok (some r)
  | some _ => .error (.crash "assert type(ft_node) is OrderedDict")

def memberCount (v : Option Y) : Nat :=
  match v with
  | some (.map m) => match kvGetNN "members" m with
    | some (.seq ms) => ms.length
    | _ => 0
  | _ => 0

def reservedPcNames : List String :=
  ["packet_size", "content_size", "timestamp_begin", "timestamp_end", "events_discarded", "packet_seq_num"]

def tryCreateStruct (fuel : Nat) (m : KVs) (k : String) : FR Unit :=
  match kvGet k m with
  | none => .ok ()
  | some v => do let _ ← createFt fuel v; .ok ()

/-- `_create_ert` -/
def createErt (fuel : Nat) (name : String) (e : KVs) (common : Nat) : FR Unit := do
  validateIden name
  let n := common + memberCount (kvGetNN "specific-context-field-type" e) + memberCount (kvGetNN "payload-field-type" e)
  if n = 0 then Except.error (.other "Event record type is empty (no members).")
  tryCreateStruct fuel e "specific-context-field-type"
  tryCreateStruct fuel e "payload-field-type"

def tooSmall (k : Option FtKind) (count : Nat) : Bool :=
  match k with
  | some (.int sz) => decide (count > 2 ^ sz.toNat)
  | _ => false

/-- `_create_dst` -/
def createDst (fuel : Nat) (clocks : List String) (name : String) (d : KVs) : FR Unit := do
  validateIden name
  let hasClk ← match kvGetNN "$default-clock-type-name" d with
    | none => pure false
    | some (.str c) => if clocks.contains c then pure true else Except.error (.other s!"Clock type `{c}` does not exist")
    | some _ => Except.error (.other "Clock type does not exist")
  let dfl : Option FtKind := some (.int 64)
  let tsD : Option FtKind := if hasClk then dfl else none
  let (idFt, tsFt) ← match kvGetNN "$features" d with
    | none => pure (dfl, tsD)
    | some (.map f) => do
      match kvGetNN "packet" f with
      | none => pure ()
      | some (.map p) => do
        let _ ← featureFt fuel p "total-size-field-type" dfl
        let _ ← featureFt fuel p "content-size-field-type" dfl
        let _ ← featureFt fuel p "beginning-timestamp-field-type" tsD
        let _ ← featureFt fuel p "end-timestamp-field-type" tsD
        let _ ← featureFt fuel p "discarded-event-records-counter-snapshot-field-type" dfl
        let _ ← featureFt fuel p "sequence-number-field-type" none
        pure ()
      | some _ => Except.error (.crash "AttributeError: packet features")
      match kvGetNN "event-record" f with
      | none => pure (dfl, tsD)
      | some (.map er) => do
        let a ← featureFt fuel er "type-id-field-type" dfl
        let b ← featureFt fuel er "timestamp-field-type" tsD
        pure (a, b)
      | some _ => Except.error (.crash "AttributeError: event record features")
    | some _ => Except.error (.crash "AttributeError: features")
  -- the timestamp features need a clock
  let pktNode0 : KVs := match kvGetNN "$features" d with
    | some (.map f) => match kvGetNN "packet" f with | some (.map p) => p | _ => []
    | _ => []
  let beg ← featureFt fuel pktNode0 "beginning-timestamp-field-type" tsD
  let end_ ← featureFt fuel pktNode0 "end-timestamp-field-type" tsD
  if !hasClk && (beg.isSome || end_.isSome || tsFt.isSome) then
    Except.error (.other "Timestamp field type feature requires a default clock type")
  let ertsV ← reqK "event-record-types" d
  let erts ← match ertsV with
    | .map em => pure em
    | _ => Except.error (.crash "TypeError: event-record-types")
  if idFt.isNone && erts.length > 1 then
    Except.error (.other "Event record type ID field type feature is required")
  if tooSmall idFt erts.length then Except.error (.other "type ID field type too small")
  -- total size field type at least as wide as the content size field type
  let pktNode : KVs := match kvGetNN "$features" d with
    | some (.map f) => match kvGetNN "packet" f with | some (.map p) => p | _ => []
    | _ => []
  let total ← featureFt fuel pktNode "total-size-field-type" dfl
  let content ← featureFt fuel pktNode "content-size-field-type" dfl
  match total, content with
  | some (.int a), some (.int b) => if a < b then Except.error (.other "total size field type narrower than content size field type") else pure ()
  | _, _ => pure ()
  match kvGetNN "packet-context-field-type-extra-members" d with
  | none => pure ()
  | some (.seq ms) => do
    createMembers fuel ms []
    ms.forM fun mem => match mem with
      | .map ((n, _) :: _) => if reservedPcNames.contains n then Except.error (.other s!"member name `{n}` is reserved") else pure ()
      | _ => pure ()
  | some _ => Except.error (.crash "TypeError: extra members")
  let common := (if idFt.isSome then 1 else 0) + (if tsFt.isSome then 1 else 0) +
    memberCount (kvGetNN "event-record-common-context-field-type" d)
  erts.forM fun (en, ev) => match ev with
    | .map e => createErt fuel en e common
    | _ => Except.error (.crash "AttributeError: event record type node")
  tryCreateStruct fuel d "event-record-common-context-field-type"

/-- `_create_config` (trace type, trace, default data stream type uniqueness) -/
def pyChecks (fuel : Nat) (cfg : KVs) : FR Unit := do
  let trv ← reqK "trace" cfg
  let tr ← match trv with | .map m => pure m | _ => Except.error (.crash "TypeError: trace")
  let ttv ← reqK "type" tr
  let tt ← match ttv with | .map m => pure m | _ => Except.error (.crash "TypeError: trace type")
  -- clock types
  let clocks ← match kvGet "clock-types" tt with
    | none => pure []
    | some (.map cm) => do
      cm.forM fun (n, _) => validateIden n
      pure (cm.map (·.1))
    | some _ => Except.error (.crash "AttributeError: clock-types")
  let hasUuid := (kvGetNN "uuid" tt).isSome
  let dfl : Option FtKind := some (.int 64)
  let dstIdFt ← match kvGetNN "$features" tt with
    | none => pure dfl
    | some (.map f) => do
      let _ ← featureFt fuel f "magic-field-type" dfl
      let _ ← featureFt fuel f "uuid-field-type" (if hasUuid then dfl else none)
      featureFt fuel f "data-stream-type-id-field-type" dfl
    | some _ => Except.error (.crash "AttributeError: features")
  let dstsV ← reqK "data-stream-types" tt
  let dsts ← match dstsV with | .map m => pure m | _ => Except.error (.crash "TypeError: data-stream-types")
  if dstIdFt.isNone && dsts.length > 1 then Except.error (.other "Data stream type ID field type feature is required")
  if tooSmall dstIdFt dsts.length then Except.error (.other "data stream type ID field type too small")
  dsts.forM fun (n, dv) => match dv with
    | .map d => createDst fuel clocks n d
    | _ => Except.error (.crash "AttributeError: data stream type node")
  -- no two generated C functions with the same name
  let fnames : List String := dsts.flatMap fun (n, dv) =>
    [n ++ "_open_packet", n ++ "_close_packet"] ++
    (match dv with
     | .map d => match kvGet "event-record-types" d with
       | some (.map em) => em.map fun (en, _) => n ++ "_trace_" ++ en
       | _ => []
     | _ => [])
  if fnames.eraseDups.length ≠ fnames.length then
    Except.error (.other "Generated C function name is ambiguous")
  -- environment variable names
  match kvGetNN "environment" tr with
  | none => pure ()
  | some (.map env) => env.forM fun (n, _) => validateIden n
  | some _ => Except.error (.crash "TypeError: environment")
  -- at most one default data stream type
  let ndef := (dsts.filter fun (_, dv) => match dv with
    | .map d => kvGet "$is-default" d = some (.bool true)
    | _ => false).length
  if ndef > 1 then Except.error (.other "Duplicate default data stream type")

inductive Verdict
  | accept
  | reject (cls : String)     -- configuration error
  | crash (what : String)     -- another exception would escape
  | unknown                   -- fuel / interpreter gave no answer
deriving Repr, DecidableEq

def schemaStage (store : Store) (fuel : Nat) (sid : String) (y : Y) : FR Unit :=
  match validate store fuel (.ref ("https://barectf.org/schemas/" ++ sid ++ ".json")) y with
  | some true => .ok ()
  | some false => .error (.other ("schema " ++ sid))
  | none => .error .fuel

/-- the schema each `_process_*_node_include` validates its node with before anything else -/
def preIncludeSchema : Kind → String
  | .trace => "config/3/trace-pre-include"
  | .traceType => "config/3/trace-type-pre-include"
  | .clockType => "config/3/clock-type-pre-include"
  | .dst => "config/3/dst-pre-include"
  | .ert => "config/3/ert-pre-include"
  | .meta2 => "config/2/metadata-pre-include"
  | .traceType2 => "config/2/trace-type-pre-include"
  | .clockType2 => "config/2/clock-type-pre-include"
  | .dst2 => "config/2/dst-pre-include"
  | .ert2 => "config/2/ert-pre-include"

/-- `procInclude` (Model/Expand.lean) with the schema validation every `_process_*_node_include` starts with,
    on the node it is given and on every file it loads -/
def procIncludeChecked (store : Store) (W : World) : Nat → Stack → Kind → Y → FR Y
  | 0, _, _, _ => .error .fuel
  | fuel + 1, stack, kd, node => do
    schemaStage store (fuel + 1) (preIncludeSchema kd) node
    match node with
    | .map m0 => do
      let m1 ← kd.children.foldlM (childStep (fun k' c => procIncludeChecked store W fuel stack k' c)) m0
      match kvGet "$include" m1 with
      | none => .ok (.map m1)
      | some inc => do
        let paths ← includePaths inc
        let base ← paths.foldlM (inclStep (fun st c => procIncludeChecked store W fuel st kd c) W stack kd.isV3) none
        .ok (finishInclude kd.isV3 base (kvErase "$include" m1))
    | _ => .error (.shape "includable object is not a mapping")

/-- the whole of `_parse` for a barectf 3 configuration node -/
def load3 (store : Store) (W : World) (fuel : Nat) (cfg : KVs) : FR KVs := do
  schemaStage store fuel "config/3/config-pre-include" (.map cfg)
  let tr ← reqK "trace" cfg
  let tr1 ← procIncludeChecked store W fuel [] .trace tr
  let cfg1 := kvSet "trace" tr1 cfg
  schemaStage store fuel "config/3/config-pre-field-type-expansion" (.map cfg1)
  let trm ← match tr1 with | .map m => pure m | _ => Except.error (.crash "TypeError: trace")
  let ttv ← reqK "type" trm
  let tt ← match ttv with | .map m => pure m | _ => Except.error (.crash "TypeError: trace type")
  let tt1 ← expandFts3 fuel tt
  let cfg2 := kvSet "trace" (.map (kvSet "type" (.map tt1) trm)) cfg
  schemaStage store fuel "config/3/config-pre-log-level-alias-sub" (.map cfg2)
  let tt2 ← subLogLevels tt1
  let cfg3 := kvSet "trace" (.map (kvSet "type" (.map tt2) trm)) cfg
  schemaStage store fuel "config/3/config" (.map cfg3)
  let trm2 ← normalizeTrace (kvSet "type" (.map tt2) trm)
  let cfg4 := kvSet "trace" (.map trm2) cfg
  pyChecks fuel cfg4
  .ok cfg4

def verdictOf {α : Type} (r : FR α) : Verdict :=
  match r with
  | .ok _ => .accept
  | .error (.crash w) => .crash w
  | .error .fuel => .unknown
  | .error e => .reject e.cls

end BVM
