/-
  Model/Ops.lean — the operation tree of barectf/cgen.py (`_OpBuilder`), for the shallow
  field-type language of Model/FT.lean.

  `_build_for_ft` yields, for an element type, "optional align, then one write or one
  loop"; that is `EOp`.  The builder threads `_offset_in_byte` (`oib`) exactly as
  `try_create_align_op` / `create_write_op` do, including the reset on compound types
  (`ft_is_compound`: structure and *static* array only) and the in-array rule.
-/
import BVM.Model.FT
namespace BVM

/-- where the value of a write comes from (generic template = `arg`; the others are the
    specialised serialize templates of cgen.gen_src) -/
inductive WSrc
  | arg
  | magic | dstId | pktSize | seqNum | tsBegin | ertId | ts
  | skipSave (name : String)
  | uuid
deriving Repr, DecidableEq

structure Write where
  src : WSrc
  sc : Scalar
  oib : Option Nat
deriving Repr, DecidableEq

inductive EOp
  | leaf (al : Option Nat) (w : Write)
  | loop (al : Option Nat) (len : Nat) (body : EOp)
deriving Repr, DecidableEq

inductive MOp
  | el (name : String) (e : EOp)
  | dloop (name : String) (al : Option Nat) (lenName : String) (body : EOp)
deriving Repr, DecidableEq

structure RootOp where
  al : Option Nat
  members : List MOp
deriving Repr, DecidableEq

/-- Python `align(v, alignment) = (v + (alignment - 1)) & -alignment` on unbounded ints,
    for a power-of-two alignment -/
def pyAlign (v al : Nat) : Nat := ((v + (al - 1)) / al) * al

/-- `try_create_align_op`: new `_offset_in_byte`, and the align op value if one is emitted -/
def tryAlign (inArray : Bool) (oib : Option Nat) (al : Nat) : Option Nat × Option Nat :=
  let oib' :=
    if oib.isNone ∧ al % 8 = 0 then some 0
    else if inArray then none
    else match oib with
      | some k => some (pyAlign k al % 8)
      | none => none
  (oib', if al > 1 then some al else none)

/-- the `_offset_in_byte` update of `create_write_op` -/
def writeOib (oib : Option Nat) : Scalar → Option Nat
  | .str => oib
  | s => match oib with
    | some k => some ((k + s.size) % 8)
    | none => none

/-- `_build_for_ft` on an element type at nesting `level` -/
def buildElem (src : WSrc) : Elem → Nat → Option Nat → EOp × Option Nat
  | .sc s, level, oib =>
    let r := tryAlign (decide (level > 0)) oib s.align
    (.leaf r.2 ⟨src, s, r.1⟩, writeOib r.1 s)
  | .sarr n e, level, _ =>
    -- ft_is_compound → `_offset_in_byte = None`
    let r := tryAlign (decide (level > 0)) none e.align
    let b := buildElem .arg e (level + 1) r.1
    (.loop r.2 n b.1, b.2)

/-- one member of a root structure; `spec` = the specialised templates by member name
    (they apply to first-level write operations only: `len(self._names) == 2`) -/
def buildMember (spec : String → Option WSrc) (m : Member) (oib : Option Nat) : MOp × Option Nat :=
  match m.ft with
  | .el (.sc s) =>
    let b := buildElem ((spec m.name).getD .arg) (.sc s) 0 oib
    (.el m.name b.1, b.2)
  | .el e =>
    let b := buildElem .arg e 0 oib
    (.el m.name b.1, b.2)
  | .darr ln e =>
    -- dynamic arrays are not "compound" for the builder: no reset
    let r := tryAlign false oib e.align
    let b := buildElem .arg e 1 r.1
    (.dloop m.name r.2 ln b.1, b.2)
  | .uuid =>
    -- `self._names == [PH, 'uuid']`: align 8, then a write op for the array field type
    let r := tryAlign false oib 8
    (.el m.name (.leaf r.2 ⟨.uuid, .str, r.1⟩), r.1)

def buildMembers (spec : String → Option WSrc) : List Member → Option Nat → List MOp × Option Nat
  | [], oib => ([], oib)
  | m :: ms, oib =>
    let b := buildMember spec m oib
    let r := buildMembers spec ms b.2
    (b.1 :: r.1, r.2)

/-- `build_for_root_ft` -/
def buildRoot (spec : String → Option WSrc) (s : Struct) : RootOp :=
  let r := tryAlign false none s.align
  { al := r.2, members := (buildMembers spec s.members r.1).1 }

def specPH : String → Option WSrc
  | "magic" => some .magic
  | "uuid" => some .uuid
  | "stream_id" => some .dstId
  | _ => none

def specPC : String → Option WSrc
  | "timestamp_begin" => some .tsBegin
  | "packet_size" => some .pktSize
  | "timestamp_end" => some (.skipSave "timestamp_end")
  | "events_discarded" => some (.skipSave "events_discarded")
  | "content_size" => some (.skipSave "content_size")
  | "packet_seq_num" => some .seqNum
  | _ => none

def specERH : String → Option WSrc
  | "timestamp" => some .ts
  | "id" => some .ertId
  | _ => none

def specNone : String → Option WSrc := fun _ => none

end BVM
