/-
  Model/Bits.lean — transcription of barectf/templates/c/bitfield.h.j2
  (`_bt_bitfield_write_le`, `_bt_bitfield_write_be`, `_bt_piecewise_rshift`,
  with `type = uint8_t`, i.e. ts = 8), of the memcpy fast path of
  serialize-write-bit-array-statements.j2 and of `_ALIGN` (barectf.c.j2).

  Core Lean only (no Mathlib): this file is linked into the compiled driver.

  Conventions
  * a buffer is a `List Nat` of bytes; `getB`/`setB` read/write one byte.
  * the C object `_vtype __v` is modelled by its mathematical value
    (`Int`).  `>>=` on it is `Int.shiftRight` (floor; arithmetic shift for
    negative values, which is what gcc/clang do — implementation-defined in
    ISO C, recorded in the trusted base).  `(type) __v` with `type =
    uint8_t` is `v mod 256`.
  * `__v &= ~((~(_vtype) 0) << __length)` (executed only when
    `__length < width`) is `v mod 2^length` (two's complement).
  * masks are the `uint8_t` values the C expressions evaluate to:
      (uint8_t) ~((~(uint8_t)0) << k)  = 2^k - 1          (k < 8)
      (uint8_t)  ((~(uint8_t)0) << k)  = 256 - 2^k        (k < 8)
      (uint8_t) ~mask                  = 255 - mask
-/
namespace BVM

abbrev Buf := List Nat

def getB (l : Buf) (i : Nat) : Nat := l.getD i 0
def setB (l : Buf) (i : Nat) (x : Nat) : Buf := l.set i x

/-- CTF bit order, little endian: bit `i` of the stream is bit `i % 8`
    (from the least significant) of byte `i / 8`. -/
def bitLE (l : Buf) (i : Nat) : Bool := (getB l (i / 8)).testBit (i % 8)
/-- CTF bit order, big endian: bit `i` of the stream is bit `7 - i % 8` of byte `i / 8`. -/
def bitBE (l : Buf) (i : Nat) : Bool := (getB l (i / 8)).testBit (7 - i % 8)

/-- two's complement bit `i` of an integer -/
def itb : Int → Nat → Bool
  | Int.ofNat n, i => n.testBit i
  | Int.negSucc n, i => !(n.testBit i)

/-- A C integer carrier type (`uint8_t` … `int64_t`). -/
structure CInt where
  width : Nat
  signed : Bool
deriving Repr, DecidableEq

/-- value conversion `(vt) x` for an arbitrary mathematical integer `x` -/
def CInt.conv (t : CInt) (x : Int) : Int :=
  let m := x % (2 : Int) ^ t.width
  if t.signed && decide (m ≥ (2 : Int) ^ (t.width - 1)) then m - (2 : Int) ^ t.width else m

/-- `(uint8_t) v` -/
def u8 (v : Int) : Nat := (v % 256).toNat

/-- `_bt_piecewise_rshift(_vtype, _v, _shift)` with `sizeof(_v) * CHAR_BIT = W` -/
def shrRep (k : Nat) : Nat → Int → Int
  | 0, v => v
  | n + 1, v => shrRep k n (v >>> k)

def pwRshift (W : Nat) (v : Int) (shift : Nat) : Int :=
  let sb := shift / (W - 1)
  let fin := shift % (W - 1)
  (shrRep (W - 1) sb v) >>> fin

/-- `__ptr[u] &= mask; __ptr[u] |= cmask;` -/
def wrMasked (buf : Buf) (u mask cmask : Nat) : Buf :=
  setB buf u ((getB buf u &&& mask) ||| cmask)

/-- the whole-unit loop of the LE macro: `n` iterations starting at unit `u` -/
def leLoop (W : Nat) : Nat → Buf → Nat → Int → Buf × Int × Nat
  | 0, buf, u, v => (buf, v, u)
  | n + 1, buf, u, v => leLoop W n (setB buf u (u8 v)) (u + 1) (pwRshift W v 8)

/-- single-unit case of the LE macro (`start_unit == end_unit - 1`) -/
def leSingle (buf : Buf) (base start len : Nat) (v : Int) : Buf :=
  let mask0 := 2 ^ (start % 8) - 1
  let mask := if (start + len) % 8 ≠ 0 then mask0 ||| (256 - 2 ^ ((start + len) % 8)) else mask0
  let cmask := ((u8 v <<< (start % 8)) % 256) &&& (255 - mask)
  wrMasked buf (base + start / 8) mask cmask

/-- first partial unit of the LE macro (`if (__start % ts)`): new buffer, shifted value, next unit -/
def leFirst (W : Nat) (buf : Buf) (base start : Nat) (v : Int) : Buf × Int × Nat :=
  if start % 8 ≠ 0 then
    let cshift := start % 8
    let mask := 2 ^ cshift - 1
    let cmask := ((u8 v <<< cshift) % 256) &&& (255 - mask)
    (wrMasked buf (base + start / 8) mask cmask, pwRshift W v (8 - cshift), start / 8 + 1)
  else (buf, v, start / 8)

/-- last unit of the LE macro (`if (end % ts) … else …`), `u` absolute unit index, `e = end % 8` -/
def leLast (buf : Buf) (u e : Nat) (v : Int) : Buf :=
  if e ≠ 0 then
    let mask := 256 - 2 ^ e
    let cmask := u8 v &&& (255 - mask)
    wrMasked buf u mask cmask
  else
    setB buf u (u8 v)

/-- `bt_bitfield_write_le(&buf[base], start, len, vt, v0)` -/
def bfWriteLE (vt : CInt) (buf : Buf) (base start len : Nat) (v0 : Int) : Buf :=
  if len = 0 then buf else
  let end_ := start + len
  let su := start / 8
  let eu := (end_ + 7) / 8
  -- Trim v high bits
  let v := if len < vt.width then v0 % (2 : Int) ^ len else v0
  if su = eu - 1 then
    leSingle buf base start len v
  else
    let f := leFirst vt.width buf base start v
    let m := leLoop vt.width (eu - 1 - f.2.2) f.1 (base + f.2.2) f.2.1
    leLast m.1 m.2.2 (end_ % 8) m.2.1

/-- the whole-unit loop of the BE macro: `n` iterations going down from unit `u` -/
def beLoop (W : Nat) : Nat → Buf → Nat → Int → Buf × Int × Nat
  | 0, buf, u, v => (buf, v, u)
  | n + 1, buf, u, v => beLoop W n (setB buf u (u8 v)) (u - 1) (pwRshift W v 8)

/-- single-unit case of the BE macro -/
def beSingle (buf : Buf) (base start len : Nat) (v : Int) : Buf :=
  let end_ := start + len
  let sh := (8 - end_ % 8) % 8
  let mask0 := 2 ^ sh - 1
  let mask := if start % 8 ≠ 0 then mask0 ||| (256 - 2 ^ (8 - start % 8)) else mask0
  let cmask := ((u8 v <<< sh) % 256) &&& (255 - mask)
  wrMasked buf (base + ((end_ + 7) / 8 - 1)) mask cmask

/-- the unit holding the end of the field, BE macro (`if (end % ts)`): buffer, value, next unit (relative) -/
def beFirst (W : Nat) (buf : Buf) (base end_ : Nat) (v : Int) : Buf × Int × Nat :=
  let eu := (end_ + 7) / 8
  if end_ % 8 ≠ 0 then
    let cshift := end_ % 8
    let mask := 2 ^ (8 - cshift) - 1
    let cmask := ((u8 v <<< (8 - cshift)) % 256) &&& (255 - mask)
    (wrMasked buf (base + (eu - 1)) mask cmask, pwRshift W v cshift, eu - 2)
  else (buf, v, eu - 1)

/-- the unit holding the start of the field, BE macro (`if (__start % ts) … else …`) -/
def beLast (buf : Buf) (u s : Nat) (v : Int) : Buf :=
  if s ≠ 0 then
    let mask := 256 - 2 ^ (8 - s)
    let cmask := u8 v &&& (255 - mask)
    wrMasked buf u mask cmask
  else
    setB buf u (u8 v)

/-- `bt_bitfield_write_be(&buf[base], start, len, vt, v0)` -/
def bfWriteBE (vt : CInt) (buf : Buf) (base start len : Nat) (v0 : Int) : Buf :=
  if len = 0 then buf else
  let end_ := start + len
  let su := start / 8
  let eu := (end_ + 7) / 8
  let v := if len < vt.width then v0 % (2 : Int) ^ len else v0
  if su = eu - 1 then
    beSingle buf base start len v
  else
    let f := beFirst vt.width buf base end_ v
    -- for (; (long) this_unit >= (long) start_unit + 1; this_unit--)
    let m := beLoop vt.width (f.2.2 - su) f.1 (base + f.2.2) f.2.1
    beLast m.1 m.2.2 (start % 8) m.2.1

inductive ByteOrder | le | be
deriving Repr, DecidableEq

def bfWrite (bo : ByteOrder) (vt : CInt) (buf : Buf) (base start len : Nat) (v : Int) : Buf :=
  match bo with
  | .le => bfWriteLE vt buf base start len v
  | .be => bfWriteBE vt buf base start len v

/-- `memcpy(&buf[base], &tmp_val, n)` with `tmp_val` a `uintN_t` on a little-endian host -/
def memcpyLE : Nat → Buf → Nat → Nat → Buf
  | 0, buf, _, _ => buf
  | n + 1, buf, base, x => memcpyLE n (setB buf base (x % 256)) (base + 1) (x / 256)

/-- `_ALIGN(at, align)` : `(at + (align - 1)) & -align` in uint32_t arithmetic
    (`align` a power of two ≤ 2^31). -/
def alignUp (at_ al : Nat) : Nat :=
  (((at_ + (al - 1)) % 2 ^ 32) / al) * al

/-- every shift executed by the macro as (promoted operand width, amount);
    used for the no-undefined-shift theorem.  The operand of the shifts on
    `type`-typed values is promoted to `int` (32 bits); shifts on `__v`
    are on the promoted `_vtype` (max W 32). -/
def pwShifts (W shift : Nat) : List (Nat × Nat) :=
  List.replicate (shift / (W - 1)) (max W 32, W - 1) ++ [(max W 32, shift % (W - 1))]

def bfShifts (isLE : Bool) (W start len : Nat) : List (Nat × Nat) :=
  if len = 0 then [] else
  let end_ := start + len
  let su := start / 8
  let eu := (end_ + 7) / 8
  let trim := if len < W then [(max W 32, len)] else []
  if su = eu - 1 then
    if isLE then
      trim ++ [(32, start % 8)] ++ (if end_ % 8 ≠ 0 then [(32, end_ % 8)] else []) ++ [(32, start % 8)]
    else
      trim ++ [(32, (8 - end_ % 8) % 8)] ++ (if start % 8 ≠ 0 then [(32, 8 - start % 8)] else [])
        ++ [(32, (8 - end_ % 8) % 8)]
  else
    let a := if isLE then start % 8 else end_ % 8
    let b := if isLE then end_ % 8 else start % 8
    let firstS := if a ≠ 0 then
        (if isLE then [(32, a), (32, a)] ++ pwShifts W (8 - a)
         else [(32, 8 - a), (32, 8 - a)] ++ pwShifts W a) else []
    let u1 := if a ≠ 0 then 1 else 0
    let nLoop := eu - 1 - su - u1
    let loopS := (List.replicate nLoop (pwShifts W 8)).flatten
    let lastS := if b ≠ 0 then [(32, if isLE then b else 8 - b)] else []
    trim ++ firstS ++ loopS ++ lastS

end BVM
