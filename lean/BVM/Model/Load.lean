/-
  Model/Load.lean — loading a configuration document of either dialect: what
  `config_parse._create_v3_parser` does (`barectf 2`: `config_parse_v2._Parser._parse`, then the barectf 3
  parser on the converted node).
-/
import BVM.Model.Build
import BVM.Model.V2
namespace BVM

/-- `config_parse_v2._Parser._parse` with its schema stages -/
def convert2Checked (store : Store) (W2 : World) (fuel : Nat) (root : KVs) : FR KVs := do
  schemaStage store fuel "config/2/config-min" (.map root)
  schemaStage store fuel "config/2/config-pre-include" (.map root)
  let mv ← req "metadata" root
  let m1 ← procIncludeChecked store W2 fuel [] .meta2 mv
  let root1 := kvSet "metadata" m1 root
  schemaStage store fuel "config/2/config-pre-field-type-expansion" (.map root1)
  let mnode ← asMap "metadata" m1
  let m2 ← expandFts2 fuel mnode
  let root2 := kvSet "metadata" (.map m2) root
  schemaStage store fuel "config/2/config" (.map root2)
  transformConfig fuel root2

def load2 (store : Store) (W2 W3 : World) (fuel : Nat) (root : KVs) : FR KVs := do
  let c3 ← convert2Checked store W2 fuel root
  load3 store W3 fuel c3

end BVM
