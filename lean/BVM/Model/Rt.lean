/-
  Model/Rt.lean — the generated tracer outside the per-type bodies
  (templates/c/barectf.c.j2): init, accessors, packet_set_buf, enable_tracing,
  open/close (preamble macro, guards, write-backs), `_reserve_er_space`, `_commit_er`,
  the tracing function skeleton — executed against a *scripted platform*.

  Explicit state passing (`St → St`), event log newest first.  `uint32_t` fields wrap.
  Line references: barectf/templates/c/barectf.c.j2 at the pinned commit.
-/
import BVM.Model.Cfg
namespace BVM

structure Ctx where
  packetSize : Nat := 0
  contentSize : Nat := 0
  at_ : Nat := 0
  offContent : Nat := 0            -- not set by init (l.258-273); the runner zero-fills the context
  eventsDiscarded : Nat := 0
  sequenceNumber : Nat := 0
  packetIsOpen : Bool := false
  inTracingSection : Bool := false
  isTracingEnabled : Bool := true
  useCurLastEventTs : Bool := false
  curLastEventTs : Nat := 0
  saved : List (String × Nat) := []
deriving Repr

/-- the scripted platform: answers, clock increments, toggles keyed by the global callback
    sequence number, buffer swaps keyed by the ordinal of the close callback, and the
    user arguments the open callback passes -/
structure Plat where
  cbSeq : Nat := 0
  clock : Nat := 0
  clockIncs : List Nat := []
  fullAnswers : List Bool := []
  toggles : List (Nat × Bool) := []
  setBufs : List (Nat × Nat) := []
  closeCount : Nat := 0
  openCount : Nat := 0
  openArgs : List Args := []
deriving Repr

inductive CbKind | clock | full | open_ | close
deriving Repr, DecidableEq

inductive Ev
  | cb (kind : CbKind) (seq : Nat) (flag isOpen : Bool)
  | cbExit (kind : CbKind) (flag : Bool)
  | store (off n : Nat) (flag isOpen : Bool)
  | deliver (bytes : Buf) (wasOpen nowOpen : Bool)
  | clockRead (v : Nat)
  | assertFail
  | oob
  | ret (api : String) (c : Ctx) (bufLen : Nat)
  -- ghost events (not part of the line protocol): what the proofs talk about
  | tsWrite (kind : String) (v : Nat)            -- a value written to a timestamp position ("begin" | "end" | "rec")
  | traceCall (ert : String) (enabled : Bool)    -- a tracing call, with the enable flag as tested after the clock sample
  | recDone (ert : String) (start end_ : Nat)    -- a record serialised into bits [start, end_) of the current packet
  | discard (cannotFit : Bool)                   -- a record discarded: cannot fit an empty packet | back end full
  | fullAnswer (full : Bool)                     -- what the is-back-end-full callback answered
  | opened (offContent : Nat) | closed (contentSize : Nat) (seqNum discarded : Nat)
deriving Repr

structure St where
  c : Ctx := {}
  buf : Buf := []
  p : Plat := {}
  log : List Ev := []
  halted : Bool := false
deriving Repr

def St.ev (s : St) (e : Ev) : St := { s with log := e :: s.log }

/-! field setters (the model's functions are written with these so that proofs can reason
    field by field) -/
def St.setFlag (s : St) (b : Bool) : St := { s with c := { s.c with inTracingSection := b } }
def St.setEnabled (s : St) (b : Bool) : St := { s with c := { s.c with isTracingEnabled := b } }
def St.setUseCur (s : St) (b : Bool) : St := { s with c := { s.c with useCurLastEventTs := b } }
def St.setCurTs (s : St) (v : Nat) : St := { s with c := { s.c with curLastEventTs := v } }
def St.setAt (s : St) (n : Nat) : St := { s with c := { s.c with at_ := n } }
def St.setOpen (s : St) (b : Bool) : St := { s with c := { s.c with packetIsOpen := b } }
def St.setOffContent (s : St) (n : Nat) : St := { s with c := { s.c with offContent := n } }
def St.setContentSize (s : St) (n : Nat) : St := { s with c := { s.c with contentSize := n } }
def St.setSeqNum (s : St) (n : Nat) : St := { s with c := { s.c with sequenceNumber := n } }
def St.setDiscarded (s : St) (n : Nat) : St := { s with c := { s.c with eventsDiscarded := n } }
def St.setPacketSize (s : St) (n : Nat) : St := { s with c := { s.c with packetSize := n } }
def St.halt (s : St) : St := { s with halted := true }
def St.setPlat (s : St) (p : Plat) : St := { s with p := p }

/-- `ctx->packet_size - <from>` in `uint32_t` arithmetic -/
def Ctx.room (c : Ctx) (from_ : Nat) : Nat := subU32 c.packetSize from_

/-- `packet_is_full` l.95 -/
def Ctx.isFull (c : Ctx) : Bool := c.at_ == c.packetSize
/-- `packet_is_empty` l.102 -/
def Ctx.isEmpty (c : Ctx) : Bool := c.at_ ≤ c.offContent

/-- `barectf_init` l.258-273 -/
def rtInit (bytes : Nat) (p : Plat) : St :=
  { c := { packetSize := u32 (bytes * 8) }, buf := List.replicate bytes 0, p := p }

/-- `packet_set_buf` l.141-154: a fresh (zero-filled) buffer of `bytes` bytes -/
def setBuf (bytes : Nat) (s : St) : St :=
  let s := if s.c.at_ == s.c.packetSize then s.setAt (u32 (bytes * 8)) else s
  { (s.setPacketSize (u32 (bytes * 8))) with buf := List.replicate bytes 0 }

/-- entry of any platform callback: log it, apply a scripted toggle of `enable_tracing` -/
def cbEnter (k : CbKind) (s : St) : St :=
  let seq := s.p.cbSeq
  let s := s.ev (.cb k seq s.c.inTracingSection s.c.packetIsOpen)
  let s := s.setPlat { s.p with cbSeq := seq + 1 }
  match s.p.toggles.lookup seq with
  | some b => s.setEnabled b
  | none => s

/-- the clock source callback; returns the value converted to the clock's C type -/
def cbClock (clk : Clock) (s : St) : Nat × St :=
  let s := cbEnter .clock s
  let inc := s.p.clockIncs.headD 1
  let t := s.p.clock + inc
  let v := (t % 2 ^ clk.ctype.width)
  let s := s.setPlat { s.p with clock := t, clockIncs := s.p.clockIncs.tail }
  (v, (s.ev (.clockRead v)).ev (.cbExit .clock s.c.inTracingSection))

def cbFull (s : St) : Bool × St :=
  let s := cbEnter .full s
  let a := s.p.fullAnswers.headD false
  (a, ((s.setPlat { s.p with fullAnswers := s.p.fullAnswers.tail }).ev (.fullAnswer a)).ev (.cbExit .full s.c.inTracingSection))

/-- result of a serialisation pass installed into the context -/
def St.setSer (s : St) (buf : Buf) (at_ : Nat) (saved : List (String × Nat)) (evs : List Ev) : St :=
  { s with buf := buf, c := { s.c with at_ := at_, saved := saved }, log := evs ++ s.log }

def installSer (r : SerSt) (s : St) : St :=
  let evs := r.stores.map fun (o, n) => Ev.store o n s.c.inTracingSection s.c.packetIsOpen
  let s := s.setSer r.buf r.at_ r.saved evs
  if r.oob then (s.ev .oob).halt else s

/-- run a serialisation pass against the context: copies `at`/buffer in and out, logs stores
    with the current flag, halts on an out-of-bounds store -/
def runSer (f : SerSt → SerSt) (s : St) : St :=
  installSer (f { buf := s.buf, at_ := s.c.at_, saved := s.c.saved, stores := [], oob := false, leaves := [] }) s

def serEnvOf (cfg : Cfg) (d : DST) (ertId ts : Nat) (c : Ctx) : SerEnv :=
  { bo := cfg.bo, fast := cfg.fast, uuid := cfg.uuid, dstId := d.id, ertId := ertId, ts := ts,
    pktSize := c.packetSize, seqNum := c.sequenceNumber }

/-- `open_close_func_preamble`: the timestamp local -/
def preambleTs (d : DST) (feature : Option Scalar) (s : St) : Nat × St :=
  match d.clock, feature with
  | some clk, some _ =>
    if s.c.useCurLastEventTs then (s.c.curLastEventTs, s) else cbClock clk s
  | _, _ => (0, s)

/-- `open_packet` after both guards: write header and context, mark open -/
def openWrite (cfg : Cfg) (d : DST) (args : Args) (ts : Nat) (saved : Bool) (s : St) : St :=
  let s := s.setAt 0
  let env := serEnvOf cfg d 0 ts s.c
  let s := runSer (fun st => serRoot env "pc" d.pcOp args (serRoot env "ph" (DST.phOp cfg) [] st)) s
  if s.halted then s else
  let s := if d.feat.tsBegin.isSome then s.ev (.tsWrite "begin" ts) else s
  let s := s.ev (.opened s.c.at_)
  ((s.setOffContent s.c.at_).setOpen true).setFlag saved

/-- `open_packet` after the preamble (l.287-333) -/
def openGuarded (cfg : Cfg) (d : DST) (args : Args) (ts : Nat) (s : St) : St :=
  let saved := s.c.inTracingSection
  if !s.c.isTracingEnabled && !saved then s.setFlag false
  else
    let s := s.setFlag true
    if s.c.packetIsOpen then s.setFlag saved
    else openWrite cfg d args ts saved s

/-- `<prefix><dst>_open_packet` l.281-333 -/
def openPacket (cfg : Cfg) (d : DST) (args : Args) (s : St) : St :=
  if s.halted then s else
  let r := preambleTs d d.feat.tsBegin s
  openGuarded cfg d args r.1 r.2

/-- one write-back of `close_packet`: `ctx->at = sctx->off_<name>;` then the saved-int template -/
def writeBack (env : SerEnv) (d : DST) (name : String) (v : Int) (s : St) : St :=
  if s.halted then s else
  match findWrite name d.pcOp.members with
  | none => s
  | some w =>
    let off := (s.c.saved.lookup name).getD 0
    runSer (fun st => writeBits env w.sc w.oib v st) (s.setAt off)

/-- the write-backs of `close_packet` (l.372-411): end timestamp, content size, discarded counter -/
def closeBacks (cfg : Cfg) (d : DST) (ts : Nat) (s : St) : St :=
  let env := serEnvOf cfg d 0 ts s.c
  let s1 := if d.feat.tsEnd.isSome then writeBack env d "timestamp_end" ts s else s
  let s2 := writeBack env d "content_size" s1.c.contentSize s1
  if d.feat.discarded.isSome then writeBack env d "events_discarded" s2.c.eventsDiscarded s2 else s2

/-- the end of `close_packet` (l.413-426): back to the end of the packet, mark closed -/
def closeFinish (d : DST) (ts : Nat) (saved : Bool) (s : St) : St :=
  if s.halted then s else
  let s := if d.feat.tsEnd.isSome then s.ev (.tsWrite "end" ts) else s
  let s := s.ev (.closed s.c.contentSize s.c.sequenceNumber s.c.eventsDiscarded)
  let s := (s.setAt s.c.packetSize).setOpen false
  let s := if d.feat.seqNum.isSome then s.setSeqNum (u32 (s.c.sequenceNumber + 1)) else s
  s.setFlag saved

/-- `close_packet` after both guards: save content size, write-backs, mark closed -/
def closeWrite (cfg : Cfg) (d : DST) (ts : Nat) (saved : Bool) (s : St) : St :=
  closeFinish d ts saved (closeBacks cfg d ts (s.setContentSize s.c.at_))

/-- `close_packet` after the preamble (l.343-426) -/
def closeGuarded (cfg : Cfg) (d : DST) (ts : Nat) (s : St) : St :=
  let saved := s.c.inTracingSection
  if !s.c.isTracingEnabled && !saved then s.setFlag false
  else
    let s := s.setFlag true
    if !s.c.packetIsOpen then s.setFlag saved
    else closeWrite cfg d ts saved s

/-- `<prefix><dst>_close_packet` l.337-426 -/
def closePacket (cfg : Cfg) (d : DST) (s : St) : St :=
  if s.halted then s else
  let r := preambleTs d d.feat.tsEnd s
  closeGuarded cfg d r.1 r.2

def St.bumpOpen (s : St) : St := s.setPlat { s.p with openCount := s.p.openCount + 1 }
def St.bumpClose (s : St) : St := s.setPlat { s.p with closeCount := s.p.closeCount + 1 }

/-- the user arguments the platform's open callback passes this time -/
def St.openArgsNow (s : St) : Args :=
  if s.p.openArgs.isEmpty then [] else s.p.openArgs.getD (s.p.openCount % s.p.openArgs.length) []

/-- the platform's open callback: calls the generated opening function with scripted user arguments -/
def cbOpen (cfg : Cfg) (d : DST) (s : St) : St :=
  if s.halted then s else
  let s1 := cbEnter .open_ s
  let s2 := openPacket cfg d s1.openArgsNow s1.bumpOpen
  s2.ev (.cbExit .open_ s2.c.inTracingSection)

/-- what the platform's close callback does after the closing function returned: hand the buffer
    to the back end, optionally install another buffer -/
def deliverAndSwap (wasOpen : Bool) (n : Nat) (s : St) : St :=
  if s.halted then s else
  let s := s.ev (.deliver s.buf wasOpen s.c.packetIsOpen)
  let s := match s.p.setBufs.lookup n with
    | some bytes => setBuf bytes s
    | none => s
  s.ev (.cbExit .close s.c.inTracingSection)

/-- the platform's close callback -/
def cbClose (cfg : Cfg) (d : DST) (s : St) : St :=
  if s.halted then s else
  let s1 := cbEnter .close s
  deliverAndSwap s1.c.packetIsOpen s1.p.closeCount (closePacket cfg d s1.bumpClose)

def noSpace (cannotFit : Bool) (s : St) : Bool × St :=
  (false, (s.ev (.discard cannotFit)).setDiscarded (u32 (s.c.eventsDiscarded + 1)))

def withUseCur (f : St → St) (s : St) : St :=
  (f (s.setUseCur true)).setUseCur false

/-- after the close of `_reserve_er_space`'s second test: ask the back end, reopen -/
def reopenAfterClose (cfg : Cfg) (d : DST) (s : St) : Bool × St :=
  let r := cbFull s
  if r.1 then noSpace false r.2 else (true, withUseCur (cbOpen cfg d) r.2)

/-- the tail of `_reserve_er_space` from "Event fits the current packet?" on -/
def reserveTail (cfg : Cfg) (d : DST) (erSize : Nat) (s : St) : Bool × St :=
  if s.halted then (false, s) else
  if erSize > s.c.room s.c.at_ then
    reopenAfterClose cfg d (withUseCur (cbClose cfg d) s)
  else (true, s)

/-- `_reserve_er_space`, tests in source order.  `erSize` is the record's size at the current
    position, `emptySize` its size at the beginning of the packet content (an event record's size
    depends on its offset because of alignment). -/
def reserve (cfg : Cfg) (d : DST) (erSize emptySize : Nat) (s : St) : Bool × St :=
  if emptySize > s.c.room s.c.offContent then noSpace true s else
  if s.c.isFull then
    let r := cbFull s
    if r.1 then noSpace false r.2 else
    reserveTail cfg d erSize (withUseCur (cbOpen cfg d) r.2)
  else reserveTail cfg d erSize s

/-- `_commit_er` l.246-256 (no use_cur_last_event_ts bracket) -/
def commit (cfg : Cfg) (d : DST) (s : St) : St :=
  if s.halted then s else
  if s.c.isFull then cbClose cfg d s else s

/-- `_er_size_<dst>_<ert>`: header, common context, specific context, payload, from `ctx->at` -/
def erSizeAt (d : DST) (e : ERT) (args : Args) (at_ : Nat) : Nat :=
  let a := sizeRoot "h" d.erhOp [] at_
  let a := match d.erccOp with | some r => sizeRoot "cc" r args a | none => a
  let a := match e.scOp with | some r => sizeRoot "sc" r args a | none => a
  let a := match e.pOp with | some r => sizeRoot "p" r args a | none => a
  subU32 a at_

/-- `_serialize_er_<dst>_<ert>` -/
def serRecord (env : SerEnv) (d : DST) (e : ERT) (args : Args) (st : SerSt) : SerSt :=
  let st := serRoot env "h" d.erhOp [] st
  let st := match d.erccOp with | some r => serRoot env "cc" r args st | none => st
  let st := match e.scOp with | some r => serRoot env "sc" r args st | none => st
  match e.pOp with | some r => serRoot env "p" r args st | none => st

/-- the clock sample at the very entry of a tracing function (l.515-519) -/
def traceClock (d : DST) (s : St) : St :=
  match d.clock with
  | some clk => let r := cbClock clk s; r.2.setCurTs r.1
  | none => s

/-- serialise the record and commit it (l.540-552), after space was reserved -/
def traceWrite (cfg : Cfg) (d : DST) (e : ERT) (args : Args) (s : St) : St :=
  let env := serEnvOf cfg d e.id s.c.curLastEventTs s.c
  let start := s.c.at_
  let s := runSer (serRecord env d e args) s
  if s.halted then s else
  let s := if d.feat.erTs.isSome then s.ev (.tsWrite "rec" s.c.curLastEventTs) else s
  let s := s.ev (.recDone e.name start s.c.at_)
  let s := commit cfg d s
  if s.halted then s else s.setFlag false

/-- the record's size after `_reserve_er_space` returned: computed again if the position changed
    (the packet was switched) -/
def sizeAfterReserve (d : DST) (e : ERT) (args : Args) (erAt erSize : Nat) (s : St) : Nat :=
  if s.c.at_ != erAt then erSizeAt d e args s.c.at_ else erSize

/-- the tracing function after `_reserve_er_space` returned: if the packet was switched the record's
    size is computed again at the new position; the record is discarded if it does not fit -/
def traceAfterReserve (cfg : Cfg) (d : DST) (e : ERT) (args : Args) (erAt erSize : Nat) (r : Bool × St) : St :=
  if r.2.halted then r.2 else
  if !r.1 then r.2.setFlag false else
  if sizeAfterReserve d e args erAt erSize r.2 > r.2.c.room r.2.c.at_ then (noSpace true r.2).2.setFlag false
  else traceWrite cfg d e args r.2

/-- the tracing function after the enable test passed; entered with the flag raised -/
def traceEnabled (cfg : Cfg) (d : DST) (e : ERT) (args : Args) (s : St) : St :=
  traceAfterReserve cfg d e args s.c.at_ (erSizeAt d e args s.c.at_)
    (reserve cfg d (erSizeAt d e args s.c.at_) (erSizeAt d e args s.c.offContent) s)

/-- hypothesis `SizeStable` of DESIGN.md, evaluated on one tracing call: the record size computed at the
    entry offset equals its size at the content offset (test (a) of `_reserve_er_space`) and at the offset
    where it is finally written.  Not part of the tracer; used to classify finding F8. -/
def sizeStableCall (cfg : Cfg) (d : DST) (e : ERT) (args : Args) (s : St) : Bool :=
  let sz := erSizeAt d e args s.c.at_
  let r := reserve cfg d sz (erSizeAt d e args s.c.offContent) (s.setFlag true)
  sz == erSizeAt d e args s.c.offContent && (!r.1 || sz == erSizeAt d e args r.2.c.at_)

/-- the tracing function from the test of `is_tracing_enabled` on (l.520-556) -/
def traceBody (cfg : Cfg) (d : DST) (e : ERT) (args : Args) (s : St) : St :=
  let s := s.ev (.traceCall e.name s.c.isTracingEnabled)
  if !s.c.isTracingEnabled then s else traceEnabled cfg d e args (s.setFlag true)

/-- `<prefix><dst>_trace_<ert>` l.508-556.  `args` holds the members of the common context,
    specific context and payload keyed `cc_<n>`, `sc_<n>`, `p_<n>` (the C parameter names). -/
def trace (cfg : Cfg) (d : DST) (e : ERT) (args : Args) (s : St) : St :=
  if s.halted then s else
  traceBody cfg d e args (traceClock d s)

/-- public API operations of a history (open/close go through the platform's own wrappers,
    as every platform in the repository does) -/
inductive Op
  | open_
  | close
  | trace (ert : String) (args : Args)
  | enable (b : Bool)
  | query
  | fin          -- the documented finalisation idiom: close if open and not empty
deriving Repr

def stepOp (cfg : Cfg) (d : DST) (op : Op) (s : St) : St :=
  if s.halted then s else
  let (name, s) := match op with
    | .open_ => ("open", cbOpen cfg d s)
    | .close => ("close", cbClose cfg d s)
    | .trace en args =>
      match d.erts.find? (fun (e : ERT) => e.name == en) with
      | some e => ("trace", trace cfg d e args s)
      | none => ("trace", s)
    | .enable b => ("enable", s.setEnabled b)
    | .query => ("query", s)
    | .fin => ("fin", if s.c.packetIsOpen && !s.c.isEmpty then cbClose cfg d s else s)
  if s.halted then s else s.ev (.ret name s.c s.buf.length)

def runOps (cfg : Cfg) (d : DST) (ops : List Op) (s : St) : St :=
  ops.foldl (fun s op => stepOp cfg d op s) s

end BVM
