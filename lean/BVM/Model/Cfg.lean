/-
  Model/Cfg.lean — configuration IR (what a `barectf.config.Configuration` says, as far as the
  generated tracer depends on it), and the construction of the three implicit root
  structures from the features (config.py: `_set_pkt_header_ft`, `_set_pkt_ctx_ft`,
  `_set_er_header_ft`).
-/
import BVM.Model.Ser
namespace BVM

structure Clock where
  name : String
  ctype : CInt
deriving Repr

structure ERT where
  name : String
  id : Nat
  sc : Option Struct
  p : Option Struct
deriving Repr

/-- packet/event-record features of a data stream type: `none` = disabled -/
structure DstFeatures where
  totalSize : Scalar
  contentSize : Scalar
  tsBegin : Option Scalar
  tsEnd : Option Scalar
  discarded : Option Scalar
  seqNum : Option Scalar
  ertId : Option Scalar
  erTs : Option Scalar
deriving Repr

structure DST where
  name : String
  id : Nat
  clock : Option Clock
  feat : DstFeatures
  pcExtra : List Member
  ercc : Option Struct
  erts : List ERT
deriving Repr

structure TraceFeatures where
  magic : Option Scalar
  uuid : Bool
  dstId : Option Scalar
deriving Repr

structure Cfg where
  bo : ByteOrder
  fast : Bool
  uuid : List Nat
  feat : TraceFeatures
  dsts : List DST
deriving Repr

def optMember (n : String) : Option Scalar → List Member
  | some s => [⟨n, .el (.sc s)⟩]
  | none => []

/-- `_TraceType._set_pkt_header_ft` -/
def Cfg.phStruct (c : Cfg) : Struct :=
  { minAlign := 8,
    members := optMember "magic" c.feat.magic ++ (if c.feat.uuid then [⟨"uuid", .uuid⟩] else [])
      ++ optMember "stream_id" c.feat.dstId }

/-- `DataStreamType._set_pkt_ctx_ft` -/
def DST.pcStruct (d : DST) : Struct :=
  { minAlign := 8,
    members := [⟨"packet_size", .el (.sc d.feat.totalSize)⟩, ⟨"content_size", .el (.sc d.feat.contentSize)⟩]
      ++ optMember "timestamp_begin" d.feat.tsBegin ++ optMember "timestamp_end" d.feat.tsEnd
      ++ optMember "events_discarded" d.feat.discarded ++ optMember "packet_seq_num" d.feat.seqNum
      ++ d.pcExtra }

/-- `DataStreamType._set_er_header_ft` -/
def DST.erhStruct (d : DST) : Struct :=
  { minAlign := 8, members := optMember "id" d.feat.ertId ++ optMember "timestamp" d.feat.erTs }

def DST.phOp (c : Cfg) : RootOp := buildRoot specPH c.phStruct
def DST.pcOp (d : DST) : RootOp := buildRoot specPC d.pcStruct
def DST.erhOp (d : DST) : RootOp := buildRoot specERH d.erhStruct
def DST.erccOp (d : DST) : Option RootOp := d.ercc.map (buildRoot specNone)
def ERT.scOp (e : ERT) : Option RootOp := e.sc.map (buildRoot specNone)
def ERT.pOp (e : ERT) : Option RootOp := e.p.map (buildRoot specNone)

/-- `ds_op_pkt_ctx_op(dst, name)`: the first-level write op of the packet context named `name` -/
def findWrite (name : String) : List MOp → Option Write
  | [] => none
  | .el n (.leaf _ w) :: ms => if n = name then some w else findWrite name ms
  | _ :: ms => findWrite name ms

end BVM
