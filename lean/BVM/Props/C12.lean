/-
  Props/C12.lean — property C12: inclusion, aliases and inheritance follow the documented patching
  rules (docs/modules/yaml/partials/patching-rules-table.adoc, include.adoc, ft-obj.adoc).

  Model: Model/Patch.lean (`_update_node`), Model/Expand.lean (`_process_node_include`,
  `_resolve_ft_alias`, `_apply_ft_inheritance`).  Tie: checks/c12.py calls those four real functions
  on generated trees, worlds and alias universes and compares with these definitions (H-frontend),
  and compares whole effective documents.

  What is proved, for all trees / worlds / fuel:
   * the patching table: scalars and null replace, mappings merge recursively, sequences append,
     `members` (barectf 3) merge as the ordered map they denote, kind clashes replace, value and key
     order of every property of a patched mapping;
   * bases are applied in the order listed and the including object last (`include_order`);
   * search order of inclusion directories; a file met again on the inclusion stack is an error;
   * aliases: chains of any length resolve; unknown alias and alias cycle are errors; inheritance is
     patching the (effective) base with the inheriting node.
  Not proved: that enough fuel always exists (termination of the real recursion is by the include
  stack / alias set; the model bounds it by fuel and the harness reports exhausted fuel as
  inconclusive), and end-to-end statements over whole documents (those are C11's).
-/
import BVM.Proofs.Expand
namespace BVM

/-! ### the patching table -/

/-- scalars (and `null`, which resets to the default) replace -/
theorem patch_scalar_replaces (v3 : Bool) (k : String) (bv ov : Y) (h1 : ov.isMap = false) (h2 : ov.isSeq = false) :
    merge v3 k bv ov = ov := merge_scalar v3 k bv ov h1 h2

theorem patch_null_replaces (v3 : Bool) (k : String) (bv : Y) : merge v3 k bv .null = .null :=
  merge_scalar v3 k bv .null rfl rfl

/-- mappings merge recursively -/
theorem patch_maps_merge (v3 : Bool) (k : String) (b o : KVs) :
    merge v3 k (.map b) (.map o) = .map (patchMap v3 b o) := merge_map_map v3 k b o

/-- sequences append (anything but barectf 3 `members`) -/
theorem patch_sequences_append (v3 : Bool) (k : String) (b o : List Y) (h : ¬ (k = "members" ∧ v3 = true)) :
    merge v3 k (.seq b) (.seq o) = .seq (b ++ o) := by
  rw [merge_seq_seq]; simp [h]

/-- barectf 3 structure members merge as an ordered map by member name: patching two member lists is
    patching the ordered maps they denote (matched names patched in place in base order, new names
    appended in overlay order — `patched_value`, `patched_key_order`) -/
theorem patch_members_ordered_map (ms os : KVs) :
    merge true "members" (.seq (ms.map memberItem)) (.seq (os.map memberItem)) =
      .seq ((patchMap true ms os).map memberItem) := by
  rw [merge_seq_seq]; simp [patchMembers_omap]

/-- barectf 2 has no such exception (its `fields` are a mapping already) -/
theorem patch_members_v2_append (b o : List Y) : merge false "members" (.seq b) (.seq o) = .seq (b ++ o) := by
  rw [merge_seq_seq]; simp

/-- kind clash between base and overlay value: the overlay value replaces -/
theorem patch_kind_clash_map (v3 : Bool) (k : String) (bv : Y) (o : KVs) (h : bv.isMap = false) :
    merge v3 k bv (.map o) = .map o := merge_map_clash v3 k bv o h

theorem patch_kind_clash_seq (v3 : Bool) (k : String) (bv : Y) (o : List Y) (h : bv.isSeq = false) :
    merge v3 k bv (.seq o) = .seq o := merge_seq_clash v3 k bv o h

/-- every property of a patched mapping -/
theorem patched_value (v3 : Bool) (k : String) (b o : KVs) (h : (kvKeys o).Nodup) :
    kvGet k (patchMap v3 b o) =
      match kvGet k b, kvGet k o with
      | some bv, some ov => some (merge v3 k bv ov)
      | none, some ov => some ov
      | r, none => r := kvGet_patchMap v3 k o b h

theorem patched_key_order (v3 : Bool) (b o : KVs) (h : (kvKeys o).Nodup) :
    kvKeys (patchMap v3 b o) = kvKeys b ++ (kvKeys o).filter (fun k => decide (k ∉ kvKeys b)) :=
  kvKeys_patchMap v3 o b h

/-! ### inclusion -/

theorem foldBases_cons (v3 : Bool) (e : Y) (es : List Y) :
    foldBases v3 none (e :: es) = some (es.foldl (patchNode v3) e) := by
  simp only [foldBases, List.foldl_cons]
  generalize e = acc
  induction es generalizing acc with
  | nil => rfl
  | cons x r ih => simp only [List.foldl_cons]; exact ih _

/-- bases are applied in the order listed and the including object last: the result is
    `patch (… (patch e₁ e₂) … eₙ) last`, `eᵢ` the effective node of the i-th file -/
theorem include_order (W : World) (fuel : Nat) (stack : Stack) (kd : Kind) (m0 : KVs) :
    procInclude W (fuel + 1) stack kd (.map m0) =
      (do
        let m1 ← kd.children.foldlM (childStep (fun k' c => procInclude W fuel stack k' c)) m0
        match kvGet "$include" m1 with
        | none => .ok (.map m1)
        | some inc => do
          let paths ← includePaths inc
          let es ← loadBases (fun st c => procInclude W fuel st kd c) W stack paths
          .ok (match es with
            | [] => .map (kvErase "$include" m1)
            | e :: r => patchNode kd.isV3 (r.foldl (patchNode kd.isV3) e) (.map (kvErase "$include" m1)))) := by
  simp only [procInclude]
  cases kd.children.foldlM (childStep (fun k' c => procInclude W fuel stack k' c)) m0 with
  | error e => rfl
  | ok m1 =>
    simp only [bind, Except.bind]
    cases kvGet "$include" m1 with
    | none => rfl
    | some inc =>
      simp only
      cases includePaths inc with
      | error e => rfl
      | ok paths =>
        simp only
        rw [foldlM_inclStep]
        cases loadBases (fun st c => procInclude W fuel st kd c) W stack paths with
        | error e => rfl
        | ok es =>
          cases es with
          | nil => rfl
          | cons e r => simp only [Except.map, foldBases_cons, finishInclude]

/-- inclusion files are searched in the given directories in order -/
theorem search_order (p : String) (pre : List (List (String × Y))) (d : List (String × Y))
    (post : List (List (String × Y))) (y : Y)
    (hpre : ∀ d' ∈ pre, kvGet p d' = none) (hd : kvGet p d = some y) :
    findInDirs p (pre ++ d :: post) 0 = some (pre.length, y) := findInDirs_first p pre d post y hpre hd

/-- a file that is already on the inclusion stack: configuration error, whatever precedes it -/
theorem recursive_inclusion_is_error (rec : Stack → Y → FR Y) (W : World) (stack : Stack) (p : String)
    (rest : List String) (di : Nat) (content : Y)
    (hfound : findInDirs p W.dirs 0 = some (di, content)) (hstack : (di, p) ∈ stack) :
    loadBases rec W stack (p :: rest) = .error (.includeCycle p) := by
  simp [loadBases, hfound, hstack]

/-- a missing file is an error unless the parser was told to ignore it, in which case it is skipped -/
theorem missing_file (rec : Stack → Y → FR Y) (W : World) (stack : Stack) (p : String) (rest : List String)
    (hmiss : findInDirs p W.dirs 0 = none) :
    loadBases rec W stack (p :: rest) =
      if W.ignoreNotFound then loadBases rec W stack rest else .error (.includeNotFound p) := by
  simp [loadBases, hmiss]

/-! ### aliases -/

/-- `names = [a₀, …, aₙ]`, `aᵢ` is an alias of `aᵢ₊₁` and `aₙ` names `node` -/
def ChainIn : List String → Y → KVs → Prop
  | [], _, _ => False
  | [a], node, al => kvGet a al = some node
  | a :: b :: r, node, al => kvGet a al = some (.str b) ∧ ChainIn (b :: r) node al

/-- aliases may reference aliases to any depth -/
theorem alias_depth (v3 : Bool) (node : Y)
    (hleaf : ∀ fuel st, resolveVal v3 (fuel + 1) st node = .ok (node, st)) :
    ∀ (names : List String) (fuel : Nat) (st : ASt), names.Nodup →
      (∀ n ∈ names, n ∉ st.resolved ∧ n ∉ st.aset) → ChainIn names node st.aliases →
      names.length + 1 ≤ fuel →
      ∃ st', resolveVal v3 fuel st (.str (names.headD "")) = .ok (node, st') := by
  intro names
  induction names with
  | nil => intro _ _ _ _ h; exact absurd h (by simp [ChainIn])
  | cons a rest ih =>
    intro fuel st hnd hfresh hchain hfuel
    obtain ⟨f, rfl⟩ : ∃ f, fuel = f + 1 := ⟨fuel - 1, by simp at hfuel; omega⟩
    have ha := hfresh a (by simp)
    cases rest with
    | nil =>
      simp only [ChainIn] at hchain
      obtain ⟨f', rfl⟩ : ∃ f', f = f' + 1 := ⟨f - 1, by simp at hfuel; omega⟩
      exact ⟨_, resolveVal_alias_step v3 (f' + 1) st a node node _ hchain ha.1 ha.2 (hleaf _ _)⟩
    | cons b r =>
      simp only [ChainIn] at hchain
      have hnd' : (b :: r).Nodup := (List.nodup_cons.mp hnd).2
      have hane : ∀ n ∈ b :: r, n ≠ a := fun n hn e => (List.nodup_cons.mp hnd).1 (e ▸ hn)
      have hfresh' : ∀ n ∈ b :: r, n ∉ ({ st with aset := a :: st.aset } : ASt).resolved ∧
          n ∉ ({ st with aset := a :: st.aset } : ASt).aset := by
        intro n hn
        have := hfresh n (List.mem_cons_of_mem _ hn)
        exact ⟨this.1, by simp [hane n hn, this.2]⟩
      obtain ⟨st2, h2⟩ := ih f { st with aset := a :: st.aset } hnd' hfresh' hchain.2
        (by simp at hfuel ⊢; omega)
      exact ⟨_, resolveVal_alias_step v3 f st a (.str b) node st2 hchain.1 ha.1 ha.2 h2⟩

/-- a field type object without nested field type properties resolves to itself -/
theorem resolveVal_leaf (v3 : Bool) (m : KVs) (h1 : ∀ k ∈ ftPropNames, kvGet k m = none)
    (h2 : kvGet (membersKey v3) m = none) (fuel : Nat) (st : ASt) :
    resolveVal v3 (fuel + 1) st (.map m) = .ok (.map m, st) := by
  have habs : ∀ (k : String) (f : ASt → Y → FR (Y × ASt)) (s : ASt) (m : KVs), kvGet k m = none →
      modKeyS k f s m = .ok (m, s) := by
    intro k f s m
    induction m with
    | nil => intro _; rfl
    | cons kv r ih =>
      obtain ⟨k', v⟩ := kv
      intro h
      by_cases hk : k' = k
      · simp [hk] at h
      · simp only [kvGet_cons, hk, if_false] at h
        simp [modKeyS, hk, ih h, bind, Except.bind]
  have hks : ∀ (ks : List String) (f : ASt → Y → FR (Y × ASt)) (s : ASt), (∀ k ∈ ks, kvGet k m = none) →
      modKeysS ks f s m = .ok (m, s) := by
    intro ks f s
    induction ks with
    | nil => intro _; rfl
    | cons k r ih =>
      intro h
      simp [modKeysS, habs k f s m (h k (by simp)), bind, Except.bind, ih (fun k' hk' => h k' (by simp [hk']))]
  simp [resolveVal, hks ftPropNames _ st h1, habs _ _ st m h2, bind, Except.bind]

/-- an alias cycle is a configuration error: an alias met again while it is being resolved -/
theorem alias_cycle_is_error (v3 : Bool) (fuel : Nat) (st : ASt) (a : String) (av : Y)
    (hget : kvGet a st.aliases = some av) (hres : a ∉ st.resolved) (hset : a ∈ st.aset) :
    resolveVal v3 (fuel + 1) st (.str a) = .error (.aliasCycle a) :=
  resolveVal_cycle v3 fuel st a av hget hres hset

/-- in particular an alias of itself, from a fresh state -/
theorem self_alias_is_error (v3 : Bool) (fuel : Nat) (al : KVs) (a : String)
    (hget : kvGet a al = some (.str a)) :
    resolveVal v3 (fuel + 2) ⟨al, [], []⟩ (.str a) = .error (.aliasCycle a) := by
  have h := resolveVal_cycle v3 fuel ⟨al, [], [a]⟩ a (.str a) hget (by simp) (by simp)
  simp [resolveVal, hget, bind, Except.bind] at h ⊢

theorem unknown_alias_is_error (v3 : Bool) (fuel : Nat) (st : ASt) (a : String)
    (hget : kvGet a st.aliases = none) :
    resolveVal v3 (fuel + 1) st (.str a) = .error (.unknownAlias a) := resolveVal_unknown v3 fuel st a hget

/-! ### non-vacuity and closed instances -/

def c12W : World :=
  { dirs := [[("b.yaml", .map [("a", .int 1), ("l", .seq [.int 1])])],
             [("b.yaml", .map [("a", .int 9)]),
              ("c.yaml", .map [("a", .int 2), ("l", .seq [.int 2]), ("n", .null)]),
              ("self.yaml", .map [("$include", .str "self.yaml")])]] }

/-- two bases and an overlay: order, appending, first directory wins -/
example : procInclude c12W 10 [] .ert
      (.map [("$include", .seq [.str "b.yaml", .str "c.yaml"]), ("l", .seq [.int 3]), ("z", .bool true)])
    = .ok (.map [("a", .int 2), ("l", .seq [.int 1, .int 2, .int 3]), ("n", .null), ("z", .bool true)]) :=
  (FR.isOkWith_iff _ _).mp (by decide +kernel)

example : procInclude c12W 10 [] .ert (.map [("$include", .str "self.yaml")]) = .error (.includeCycle "self.yaml") :=
  (FR.isErr_iff _ _).mp (by decide +kernel)

/-- members: `b` patched in place, `c` appended -/
example : merge true "members"
      (.seq [.map [("a", .str "u8")], .map [("b", .map [("field-type", .str "u8")])]])
      (.seq [.map [("b", .map [("field-type", .str "u16")])], .map [("c", .str "u8")]])
    = .seq [.map [("a", .str "u8")], .map [("b", .map [("field-type", .str "u16")])], .map [("c", .str "u8")]] := by
  decide +kernel

/-- a chain of three aliases satisfies the hypotheses of `alias_depth` -/
example : ChainIn ["a", "b", "c"] (.map [("class", .str "uint")])
    [("a", .str "b"), ("c", .map [("class", .str "uint")]), ("b", .str "c")] := by
  simp [ChainIn]

example : (resolveVal true 10 ⟨[("a", .str "b"), ("c", .map [("class", .str "uint")]), ("b", .str "c")], [], []⟩
    (.str "a")).map (·.1) = .ok (.map [("class", .str "uint")]) := by
  have : FR.isOkWith ((resolveVal true 10 ⟨[("a", .str "b"), ("c", .map [("class", .str "uint")]), ("b", .str "c")], [], []⟩
    (.str "a")).map (·.1)) (.map [("class", .str "uint")]) = true := by decide +kernel
  exact (FR.isOkWith_iff _ _).mp this

/-- inheritance is patching the base with the inheriting node (null reset included) -/
example : inheritVal true 10 (.map [("$inherit", .map [("class", .str "uint"), ("size", .int 8), ("alignment", .int 16)]),
      ("alignment", .null), ("size", .int 32)])
    = .ok (.map [("class", .str "uint"), ("size", .int 32), ("alignment", .null)]) :=
  (FR.isOkWith_iff _ _).mp (by decide +kernel)

end BVM

#print axioms BVM.patch_scalar_replaces
#print axioms BVM.patch_null_replaces
#print axioms BVM.patch_maps_merge
#print axioms BVM.patch_sequences_append
#print axioms BVM.patch_members_ordered_map
#print axioms BVM.patch_members_v2_append
#print axioms BVM.patch_kind_clash_map
#print axioms BVM.patch_kind_clash_seq
#print axioms BVM.patched_value
#print axioms BVM.patched_key_order
#print axioms BVM.foldBases_cons
#print axioms BVM.include_order
#print axioms BVM.search_order
#print axioms BVM.recursive_inclusion_is_error
#print axioms BVM.missing_file
#print axioms BVM.alias_depth
#print axioms BVM.resolveVal_leaf
#print axioms BVM.alias_cycle_is_error
#print axioms BVM.self_alias_is_error
#print axioms BVM.unknown_alias_is_error
