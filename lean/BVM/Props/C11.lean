/-
  Props/C11.lean — property C11: the effective configuration is equivalent to the original and a
  fixed point.

  Model: Model/Expand.lean (`expand3`: inclusions, field type expansion, log level substitution,
  property normalisation, in the order of `config_parse_v3._parse`) and Model/V2.lean (`expand2`).
  Tie: checks/c11.py compares, for generated valid documents of both dialects (re-expressed with
  inclusions, alias and inheritance chains, null resets, every spelling alias), the document printed by
  the real `effective_configuration_file` (re-loaded) with `expand3` / `expand2`, tree for tree including
  key order; the property's own relation between two runs of the tool (byte-identical generated files
  from the original and from the effective document; printing again gives the same text) is evaluated
  on the implementation.

  Proved for all documents, worlds and fuel:
   * `effective_marks`: whatever `expand3` returns has no `$field-type-aliases` and no
     `$log-level-aliases`, its trace type node is a fixed point of the property normalisation and holds no
     `null` property, and the trace node has no `null` environment;
   * `effective_fixed_point`: a node with those marks and no `$include` at any includable object is
     returned unchanged by the whole pipeline, in any world;
   * `normalisation_idempotent`, `null_reset_removed`;
   * `inclusion_stage_leaves_no_include`, `inclusion_stage_idempotent`, `inclusion_stage_keys_distinct`: for every
     world and node whose mappings hold each key at most once (what PyYAML loads), whatever the inclusion stage
     returns has no `$include` at any includable object, holds each key once at every includable object, and is
     returned unchanged by a second run of the stage in any world (Proofs/NoInclude.lean; the hypothesis is
     necessary: with a key listed twice the unprocessed second occurrence can carry an `$include` through).
  Not proved (recorded): that the three later stages keep the result free of `$include` and that no alias name /
  `$inherit` is left inside field types (so `expand3 (expand3 d) = expand3 d` is proved only through
  `effective_fixed_point`'s hypotheses, which the check evaluates on every real effective document); equality of
  generated files is an implementation-side oracle.
-/
import BVM.Proofs.Fixed
import BVM.Proofs.NoInclude
namespace BVM

theorem normalisation_idempotent (y : Y) : normProps (normProps y) = normProps y := normProps_idem y

/-- a property reset with `null` is absent from the normalised mapping -/
theorem null_reset_removed (k : String) (m : KVs) (hnd : (kvKeys m).Nodup) (h : kvGet k m = some .null) :
    kvGet k (normPropsM m) = none := normPropsM_null_removed k m hnd h

theorem no_null_property_left (k : String) (m : KVs) : kvGet k (normPropsM m) ≠ some .null :=
  normPropsM_no_null k m

/-- marks of whatever the pipeline returns -/
theorem effective_marks (W : World) (fuel : Nat) (cfg e : KVs) (h : expand3 W fuel cfg = .ok e) :
    ∃ trm tt, kvGet "trace" e = some (.map trm) ∧ kvGet "type" trm = some (.map tt) ∧
      kvGet "$field-type-aliases" tt = none ∧ kvGet "$log-level-aliases" tt = none ∧
      normPropsM tt = tt ∧ (∀ k, kvGet k tt ≠ some .null) ∧ kvGet "environment" trm ≠ some .null := by
  simp only [expand3] at h
  cases htr : kvGet "trace" cfg with
  | none => simp [htr] at h
  | some tr =>
    simp only [htr, bind, Except.bind] at h
    cases h0 : procInclude W fuel [] .trace tr with
    | error _ => simp [h0] at h
    | ok tr1 =>
      simp only [h0] at h
      cases tr1 with
      | map trm =>
        simp only at h
        cases hty0 : kvGet "type" trm with
        | none => simp [hty0] at h
        | some tyv =>
          cases tyv with
          | map tt =>
            simp only [hty0] at h
            cases h1 : expandFts3 fuel tt with
            | error _ => simp [h1] at h
            | ok tt1 =>
              simp only [h1] at h
              cases h2 : subLogLevels tt1 with
              | error _ => simp [h2] at h
              | ok tt2 =>
                simp only [h2] at h
                cases h3 : normalizeTrace (kvSet "type" (.map tt2) trm) with
                | error _ => simp [h3] at h
                | ok trm2 =>
                  simp only [h3] at h
                  injection h with h
                  have hty : kvGet "type" (kvSet "type" (.map tt2) trm) = some (.map tt2) := kvGet_kvSet_same _ _ _
                  simp only [normalizeTrace, hty] at h3
                  cases hbo : kvGet (traceByteOrderKey tt2) tt2 with
                  | none => simp [hbo] at h3
                  | some bo =>
                    simp only [hbo] at h3
                    injection h3 with h3
                    have hfta : kvGet "$field-type-aliases" tt2 = none :=
                      subLogLevels_keeps_none tt1 tt2 _ h2 (expandFts3_no_aliases fuel tt tt1 h1)
                    have hlla : kvGet "$log-level-aliases" tt2 = none := subLogLevels_no_aliases tt1 tt2 h2
                    have hk1 : traceByteOrderKey tt2 ≠ "$field-type-aliases" := by
                      unfold traceByteOrderKey; split <;> decide
                    have hk2 : traceByteOrderKey tt2 ≠ "$log-level-aliases" := by
                      unfold traceByteOrderKey; split <;> decide
                    have ha3 : kvGet "$field-type-aliases"
                        (normPropsM (kvSet (traceByteOrderKey tt2) (normByteOrder bo) tt2)) = none :=
                      normPropsM_keeps_none _ _ (by rw [kvGet_kvSet_other _ _ _ hk1]; exact hfta)
                    have hl3 : kvGet "$log-level-aliases"
                        (normPropsM (kvSet (traceByteOrderKey tt2) (normByteOrder bo) tt2)) = none :=
                      normPropsM_keeps_none _ _ (by rw [kvGet_kvSet_other _ _ _ hk2]; exact hlla)
                    rw [← h]
                    refine ⟨trm2, normPropsM (kvSet (traceByteOrderKey tt2) (normByteOrder bo) tt2),
                      kvGet_kvSet_same _ _ _, ?_, ha3, hl3, normPropsM_idem _, fun k => normPropsM_no_null k _, ?_⟩
                    · rw [← h3]
                      split
                      · rw [kvGet_kvErase_other _ _ (by decide)]; exact kvGet_kvSet_same _ _ _
                      · exact kvGet_kvSet_same _ _ _
                    · rw [← h3]
                      split
                      · rw [kvGet_kvErase_same]; simp
                      · rename_i hne
                        intro hc
                        exact hne hc
          | _ => simp [hty0] at h
      | _ => simp at h

/-- an effective node (the marks above, the trace byte order spelled canonically, no `$include` at any
    includable object) is a fixed point of the pipeline, whatever the inclusion directories hold -/
theorem effective_fixed_point (W : World) (fuel : Nat) (cfg trm tt : KVs) (bo : Y)
    (h : Effective cfg trm tt bo) (hfuel : 4 ≤ fuel) : expand3 W fuel cfg = .ok cfg :=
  expand3_fixed W fuel cfg trm tt bo h hfuel

/-- **the inclusion stage leaves no inclusion behind**: for every world whose files, and every node which,
    hold each mapping key at most once (`Y.dk`: anything PyYAML loads), whatever `procInclude` returns for an
    object of kind `kd` has no `$include` property at any includable object below it (and every present child
    has the shape its kind requires) -/
theorem inclusion_stage_leaves_no_include (W : World) (hW : W.dk) (fuel : Nat) (stack : Stack) (kd : Kind)
    (y y' : Y) (hdk : y.dk = true) (h : procInclude W fuel stack kd y = .ok y') :
    includeFree kd.rank kd y' = true :=
  good_includeFree kd.rank kd y' (Nat.le_refl _) (procInclude_good W hW fuel stack kd y y' hdk h kd.rank)

/-- …so running the inclusion stage again on its result, in *any* world, returns it unchanged -/
theorem inclusion_stage_idempotent (W W' : World) (hW : W.dk) (fuel fuel' : Nat) (stack stack' : Stack) (kd : Kind)
    (y y' : Y) (hdk : y.dk = true) (h : procInclude W fuel stack kd y = .ok y') (hfuel : kd.rank ≤ fuel') :
    procInclude W' fuel' stack' kd y' = .ok y' :=
  procInclude_free W' fuel' stack' kd y'
    (includeFree_le kd.rank fuel' kd y' hfuel (inclusion_stage_leaves_no_include W hW fuel stack kd y y' hdk h))

/-- the result of the inclusion stage holds each key at most once at every includable object -/
theorem inclusion_stage_keys_distinct (W : World) (hW : W.dk) (fuel : Nat) (stack : Stack) (kd : Kind)
    (y : Y) (m' : KVs) (hdk : y.dk = true) (h : procInclude W fuel stack kd y = .ok (.map m')) :
    (kvKeys m').Nodup := by
  have := procInclude_good W hW fuel stack kd y _ hdk h 1
  simp only [Good] at this
  exact this.2.1

/-! ### non-vacuity -/

def c11Doc : KVs :=
  [("trace", .map [("type", .map [
      ("$include", .str "base.yaml"),
      ("native-byte-order", .str "le"),
      ("$field-type-aliases", .map [("u8", .map [("class", .str "uint"), ("size", .int 8), ("alignment", .int 16)]),
                                    ("b", .str "u8")]),
      ("$log-level-aliases", .map [("WARN", .int 4)]),
      ("data-stream-types", .map [("d", .map [("event-record-types", .map [("e", .map [
          ("log-level", .str "WARN"),
          ("payload-field-type", .map [("class", .str "struct"), ("members", .seq [
              .map [("x", .str "b")],
              .map [("y", .map [("field-type", .map [("$inherit", .str "u8"), ("alignment", .null)])])]])])])])])])])])]

def c11W : World := { dirs := [[("base.yaml", .map [("uuid", .null), ("data-stream-types", .map [("d", .map [("$is-default", .bool true)])])])]] }

def c11Eff : KVs :=
  [("trace", .map [("type", .map [
      ("data-stream-types", .map [("d", .map [("$is-default", .bool true), ("event-record-types", .map [("e", .map [
          ("log-level", .int 4),
          ("payload-field-type", .map [("class", .str "structure"), ("members", .seq [
              .map [("x", .map [("field-type", .map [("class", .str "unsigned-integer"), ("size", .int 8), ("alignment", .int 16)])])],
              .map [("y", .map [("field-type", .map [("class", .str "unsigned-integer"), ("size", .int 8)])])]])])])])])]),
      ("native-byte-order", .str "little-endian")])])]

/-- inclusion, alias chain, short member form, inheritance with a null reset, log level alias, spelling
    aliases and a null property, all in one document -/
example : expand3 c11W 32 c11Doc = .ok c11Eff := (FR.isOkWith_iff _ _).mp (by decide +kernel)

/-- …and its effective document meets the hypotheses of `effective_fixed_point` -/
example : ∃ trm tt bo, Effective c11Eff trm tt bo := by
  refine ⟨_, _, .str "little-endian", ⟨rfl, rfl, by decide +kernel, by decide +kernel, by decide +kernel,
    by decide +kernel, rfl, by decide +kernel, by decide +kernel⟩⟩

/-- the world and the document of the example meet the distinct-keys hypothesis, and the inclusion stage succeeds on it -/
example : c11W.dk ∧ (Y.map c11Doc).dk = true := by
  refine ⟨?_, by decide +kernel⟩
  intro d hd f hf
  simp only [c11W, List.mem_singleton] at hd
  subst hd
  simp only [List.mem_singleton] at hf
  subst hf
  decide +kernel

example : ∃ tr tr1, kvGet "trace" c11Doc = some tr ∧ procInclude c11W 32 [] .trace tr = .ok tr1 ∧
    includeFree 4 .trace tr1 = true := by
  refine ⟨_, _, rfl, (FR.isOkWith_iff _ _).mp (by decide +kernel : (procInclude c11W 32 [] .trace _).isOkWith
    (.map [("type", .map [("uuid", .null),
      ("data-stream-types", .map [("d", .map [("$is-default", .bool true), ("event-record-types", .map [("e", .map [
          ("log-level", .str "WARN"),
          ("payload-field-type", .map [("class", .str "struct"), ("members", .seq [
              .map [("x", .str "b")],
              .map [("y", .map [("field-type", .map [("$inherit", .str "u8"), ("alignment", .null)])])]])])])])])]),
      ("native-byte-order", .str "le"),
      ("$field-type-aliases", .map [("u8", .map [("class", .str "uint"), ("size", .int 8), ("alignment", .int 16)]),
                                    ("b", .str "u8")]),
      ("$log-level-aliases", .map [("WARN", .int 4)])])]) = true), by decide +kernel⟩

example : expand3 { dirs := [] } 4 c11Eff = .ok c11Eff := (FR.isOkWith_iff _ _).mp (by decide +kernel)

end BVM

#print axioms BVM.normalisation_idempotent
#print axioms BVM.null_reset_removed
#print axioms BVM.no_null_property_left
#print axioms BVM.effective_marks
#print axioms BVM.effective_fixed_point
#print axioms BVM.inclusion_stage_leaves_no_include
#print axioms BVM.inclusion_stage_idempotent
#print axioms BVM.inclusion_stage_keys_distinct
