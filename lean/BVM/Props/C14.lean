/-
  Props/C14.lean — property C14: documented public API and C types.

  Proved over the model of `_ft_c_type` / `_proto_params_str` / `_trace_func_params_str`
  (Model/Api.lean), whose outputs are compared on every run with the real header (every prototype)
  and, exhaustively over its finite domain, with the real `_ft_c_type`:
    * ctype_is_smallest — the carrier of an integer field of 1..64 bits is the smallest of 8/16/32/64
      that holds it, with the field's signedness;
    * real_ctype — a real field is `float` (32) or `double` (64) whatever its alignment;
    * trace_params_are_members — a tracing function takes, in order, the members of the common
      context, the specific context and the payload (prefixes cc_/sc_/p_), nothing else; a dynamic
      array is its `uint32_t` length member followed by a pointer to const elements;
    * open_params_are_user_members — an opening function takes the user members of the packet
      context only.
  NOT a theorem: that the generated text is strictly conforming ISO C90 and valid C++ (no model of
  ISO C/C++ here).  The check compiles every generated sample with gcc and clang `-ansi -pedantic
  -Wall -Wextra -Werror`, g++/clang++ `-std=c++98 … -Werror`, and a translation unit that includes
  only the header.
-/
import BVM.Model.Api
namespace BVM

theorem ctype_is_smallest (size : Nat) (h1 : 1 ≤ size) (h64 : size ≤ 64) :
    (cWidth size = 8 ∨ cWidth size = 16 ∨ cWidth size = 32 ∨ cWidth size = 64) ∧ size ≤ cWidth size ∧
    ∀ w, (w = 8 ∨ w = 16 ∨ w = 32 ∨ w = 64) → size ≤ w → cWidth size ≤ w := by
  unfold cWidth
  refine ⟨?_, ?_, ?_⟩
  · split <;> (try split) <;> (try split) <;> simp
  · split <;> (try split) <;> (try split) <;> omega
  · intro w hw hs
    split <;> (try split) <;> (try split) <;> omega

theorem int_ctype_name (sg : Bool) (size : Nat) :
    cIntName sg size = (if sg then "" else "u") ++ "int" ++ toString (cWidth size) ++ "_t" := rfl

theorem real_ctype (al : Nat) :
    scalarCName (.real 32 al) = "float" ∧ scalarCName (.real 64 al) = "double" := ⟨rfl, rfl⟩

theorem protoParams_all (isConst : Bool) (pfx : String) (ms : List Member) :
    protoParams isConst pfx [] false ms = ms.map fun m => (ftCType isConst m.ft, pfx ++ "_" ++ m.name) := by
  unfold protoParams
  congr 1
  apply List.filter_eq_self.mpr
  intro m _
  simp

/-- tracing functions: header members other than id/timestamp (there are none), then every member of the
    common context, of the specific context and of the payload, in order -/
theorem trace_params_are_members (d : DST) (e : ERT) :
    traceParams false false d e =
      protoParams false "h" ["id", "timestamp"] false d.erhStruct.members ++
      (match d.ercc with | some s => s.members.map fun m => (ftCType false m.ft, "cc_" ++ m.name) | none => []) ++
      (match e.sc with | some s => s.members.map fun m => (ftCType false m.ft, "sc_" ++ m.name) | none => []) ++
      (match e.p with | some s => s.members.map fun m => (ftCType false m.ft, "p_" ++ m.name) | none => []) := by
  unfold traceParams
  cases d.ercc <;> cases e.sc <;> cases e.p <;> simp [protoParams_all]

/-- the event record header never contributes a parameter: its only members are `id` and `timestamp` -/
theorem header_has_no_param (d : DST) : protoParams false "h" ["id", "timestamp"] false d.erhStruct.members = [] := by
  unfold protoParams DST.erhStruct optMember
  cases d.feat.ertId <;> cases d.feat.erTs <;> simp [isLenMember]

/-- a dynamic array (and a static array) parameter is a pointer to const elements; the length member of a
    dynamic array is a `uint32_t`; a string is a pointer to const `char` -/
theorem array_param (ln : String) (n : Nat) (e : Elem) :
    ftCT false (.darr ln e) = .ptr (elemCT true e) false ∧ ftCT false (.el (.sarr n e)) = .ptr (elemCT true e) false ∧
    ftCT false (.el (.sc (.int false 32 8))) = .arith "uint32_t" false ∧
    ftCT false (.el (.sc .str)) = .ptr (.arith "char" true) false := ⟨rfl, rfl, rfl, rfl⟩

/-- integer and real parameters are passed by value with the field's C type -/
theorem scalar_param (sg : Bool) (sz al : Nat) :
    ftCT false (.el (.sc (.int sg sz al))) = .arith (cIntName sg sz) false ∧
    ftCT false (.el (.sc (.real 32 al))) = .arith "float" false ∧
    ftCT false (.el (.sc (.real 64 al))) = .arith "double" false := ⟨rfl, rfl, rfl⟩

/-! Non-vacuity -/
example : cWidth 17 = 32 ∧ cIntName true 9 = "int16_t" := by decide

#print axioms ctype_is_smallest
#print axioms int_ctype_name
#print axioms real_ctype
#print axioms protoParams_all
#print axioms trace_params_are_members
#print axioms header_has_no_param
#print axioms array_param
#print axioms scalar_param
end BVM
