/-
  Props/C03.lean — property C03: each tracing call is recorded exactly once, in order, or counted as
  discarded.

  What is proved here (over the runtime model, for every configuration, history, platform script and
  buffer size; `recDone`/`discard`/`traceCall`/`fullAnswer` are ghost events of Model/Rt.lean):
    * calls_recorded_or_discarded — every tracing call that passed its enable test ends as exactly one
      serialised record or exactly one discard (unless the run halts on an out-of-bounds store or a
      failed assertion — those are C02's subject);
    * discarded_counter_exact — the discarded-records counter is the number of discards (mod 2^32);
    * discard_only_if — a record is refused only if it cannot fit an empty packet (the test against
      `packet_size - off_content`) or the back end answered "full" during the call.
    * records_laid_out_in_order — (one buffer size) every serialised record begins at or after the end of the
      previous record of its packet, or of the packet context, and ends inside the packet: no overlap, call order;
  What is NOT proved here and is carried by the correspondence + decoding oracle instead (named
  `records_exactly_once` in DESIGN.md): that decoding the delivered packet bytes with the metadata
  returns those records in call order, without overlap, inside the packet content.  That needs the
  layout round trip (C01) composed with the packet invariants; the size-staleness finding F8 makes
  the full statement false on the pinned tree (see DESIGN.md section 6).
-/
import BVM.Proofs.RtRec
import BVM.Proofs.CfgOKb
import BVM.Proofs.RtPosB
namespace BVM

theorem calls_recorded_or_discarded (cfg : Cfg) (d : DST) (ops : List Op) (bytes : Nat) (p : Plat)
    (hn : (runOps cfg d ops (rtInit bytes p)).halted = false) :
    nCall (runOps cfg d ops (rtInit bytes p)).log =
      nRec (runOps cfg d ops (rtInit bytes p)).log + nDisc (runOps cfg d ops (rtInit bytes p)).log :=
  runOps_bal cfg d ops (rtInit bytes p) (fun _ => rfl) hn

/-- the same without the "run did not halt" hypothesis, for platforms whose packet buffers all have one size: no
    history halts (`no_store_outside_the_buffer`, Props/C02.lean), so every tracing call that passed its enable test is
    exactly one record or exactly one discard, along every history -/
theorem calls_recorded_or_discarded_always (cfg : Cfg) (d : DST) (L A : Nat) (hcfg : CfgOK A cfg d)
    (hsmall : 8 * L + A ≤ 2 ^ 32) (p : Plat) (hsb : ∀ x ∈ p.setBufs, x.2 = L)
    (hhdr : ∀ args ∈ openArgsOf p.openArgs, hdrEndN cfg d args ≤ 8 * L)
    (ops : List Op) (hops : OpsSmall d L A ops) :
    nCall (runOps cfg d ops (rtInit L p)).log =
      nRec (runOps cfg d ops (rtInit L p)).log + nDisc (runOps cfg d ops (rtInit L p)).log :=
  calls_recorded_or_discarded cfg d ops L p
    (runOps_pinv cfg d L A p.openArgs hcfg hsmall hhdr ops hops (rtInit L p)
      (rtInit_pinv d L A hcfg.Apos hsmall p hsb)).nh

/-- the same for platforms that install buffers of different sizes, for histories that start by opening a packet and
    never disable tracing (hypotheses of `no_store_outside_the_buffer_any_sizes`, Props/C02.lean) -/
theorem calls_recorded_or_discarded_always_any_sizes (cfg : Cfg) (d : DST) (A Lmax : Nat) (hcfg : CfgOK A cfg d)
    (hsmall : 8 * Lmax + A ≤ 2 ^ 32) (L : Nat) (p : Plat) (hL : GoodBuf cfg d A Lmax p.openArgs L)
    (htg : p.toggles = []) (hsb : ∀ x ∈ p.setBufs, GoodBuf cfg d A Lmax p.openArgs x.2)
    (ops : List Op) (hops : OpsSmall d Lmax A ops) (hen : NeverDisabled ops) :
    nCall (runOps cfg d (.open_ :: ops) (rtInit L p)).log =
      nRec (runOps cfg d (.open_ :: ops) (rtInit L p)).log + nDisc (runOps cfg d (.open_ :: ops) (rtInit L p)).log :=
  calls_recorded_or_discarded cfg d (.open_ :: ops) L p
    (runOps_from_init cfg d A Lmax hcfg hsmall L p hL htg hsb ops hops hen).nh

/-- **records are laid out one after the other, inside the packet** (platforms with one buffer size; hypotheses as in
    `no_store_outside_the_buffer`, Props/C02.lean): along every history, every record that a tracing call serialises
    (`recDone name a b`: bits `[a, b)` of the current packet) begins at or after the end of everything its packet held
    before it — the previous record of that packet, or the packet header and context when it is the first (`hw` of the
    older part of the log) — and ends inside the packet.  So the records of a packet never overlap each other nor the
    packet header/context, and their order in the packet is the order of the calls. -/
theorem records_laid_out_in_order (cfg : Cfg) (d : DST) (L A : Nat) (hcfg : CfgOK A cfg d)
    (hsmall : 8 * L + A ≤ 2 ^ 32) (p : Plat) (hsb : ∀ x ∈ p.setBufs, x.2 = L)
    (hhdr : ∀ args ∈ openArgsOf p.openArgs, hdrEndN cfg d args ≤ 8 * L)
    (ops : List Op) (hops : OpsSmall d L A ops)
    (pre : List Ev) (n : String) (a b : Nat) (rest : List Ev)
    (hlog : (runOps cfg d ops (rtInit L p)).log = pre ++ Ev.recDone n a b :: rest) :
    hw rest ≤ a ∧ a ≤ b ∧ b ≤ 8 * L := by
  have h := (runOps_pinv cfg d L A p.openArgs hcfg hsmall hhdr ops hops (rtInit L p)
    (rtInit_pinv d L A hcfg.Apos hsmall p hsb)).chain
  rw [hlog] at h
  exact ChainOK.record pre n a b rest h

theorem discarded_counter_exact (cfg : Cfg) (d : DST) (ops : List Op) (bytes : Nat) (p : Plat) :
    (runOps cfg d ops (rtInit bytes p)).c.eventsDiscarded =
      nDisc (runOps cfg d ops (rtInit bytes p)).log % 4294967296 :=
  (runOps_inv cfg d ops _ (rtInit_inv d bytes p)).disc

theorem discard_only_if (cfg : Cfg) (d : DST) (erSize emptySize : Nat) (s : St)
    (hn : (reserve cfg d erSize emptySize s).2.halted = false) (h : (reserve cfg d erSize emptySize s).1 = false) :
    emptySize > s.c.room s.c.offContent ∨
    ∃ new, (reserve cfg d erSize emptySize s).2.log = new ++ s.log ∧ Ev.fullAnswer true ∈ new :=
  reserve_reason cfg d erSize emptySize s hn h

/-- one tracing call that passed its enable test: exactly one record or exactly one discard -/
theorem one_call_one_outcome (cfg : Cfg) (d : DST) (e : ERT) (args : Args) (s : St)
    (hn : (traceEnabled cfg d e args s).halted = false) :
    ∃ new, (traceEnabled cfg d e args s).log = new ++ s.log ∧ nRec new + nDisc new = 1 := by
  obtain ⟨dr, dd, h1, new, h2, h3, h4, _⟩ := traceEnabled_delta cfg d e args s hn
  exact ⟨new, h2, by omega⟩

/-! Non-vacuity: a run with two kept records, one discard by a full back end, none halted -/
def exDst3 : DST :=
  { name := "s", id := 0, clock := none,
    feat := { totalSize := .int false 16 8, contentSize := .int false 16 8, tsBegin := none, tsEnd := none,
              discarded := some (.int false 8 8), seqNum := some (.int false 8 8), ertId := none, erTs := none },
    pcExtra := [], ercc := none,
    erts := [{ name := "e", id := 0, sc := none, p := some ⟨1, [⟨"x", .el (.sc (.int false 8 8))⟩]⟩ }] }
def exCfg3 : Cfg :=
  { bo := .le, fast := true, uuid := [], feat := { magic := none, uuid := false, dstId := none }, dsts := [exDst3] }
def exRun3 : St :=
  runOps exCfg3 exDst3 [.open_, .trace "e" [("p_x", [.num 7])], .trace "e" [("p_x", [.num 8])],
    .trace "e" [("p_x", [.num 9])], .trace "e" [("p_x", [.num 10])]] (rtInit 8 { fullAnswers := [true] })

/-- the three kept records of the example occupy bits [48,56), [56,64) of the first packet and [48,56) of the second -/
example : hw exRun3.log = 56 ∧ (exRun3.log.filterMap fun e => match e with | .recDone _ a b => some (a, b) | _ => none) =
    [(48, 56), (56, 64), (48, 56)] := by decide +kernel

example : exRun3.halted = false ∧ nCall exRun3.log = 4 ∧ nRec exRun3.log = 3 ∧ nDisc exRun3.log = 1 ∧
    exRun3.c.eventsDiscarded = 1 := by decide +kernel

#print axioms calls_recorded_or_discarded
#print axioms calls_recorded_or_discarded_always
#print axioms calls_recorded_or_discarded_always_any_sizes
#print axioms records_laid_out_in_order
#print axioms discarded_counter_exact
#print axioms discard_only_if
#print axioms one_call_one_outcome
end BVM
