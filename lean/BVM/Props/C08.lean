/-
  Props/C08.lean — property C08: integer fields of any size, bit offset and byte
  order are encoded bit-exactly.

  Statements only; proofs are in Proofs/Bits.lean.  `bfWriteLE`/`bfWriteBE` are the
  transcriptions of `bt_bitfield_write_le/_be` (Model/Bits.lean); `bitLE`/`bitBE`
  are the CTF bit orders; `itb v j` is two's-complement bit `j` of the integer `v`.
  No bound on the value, on the prior buffer contents, on the start offset or on
  the buffer size.
-/
import BVM.Proofs.Bits
namespace BVM

/-- two's-complement bit `j < len` of `v` is bit `j` of `v mod 2^len`: "exactly the low bits of the value" -/
theorem itb_low_bits (v : Int) (len j : Nat) (hj : j < len) :
    itb v j = ((v % (2 : Int) ^ len).toNat).testBit j := by
  have h := itb_emod_pow v len j
  have hpos : (0 : Int) < (2 : Int) ^ len := Int.pow_pos (by decide)
  have hnn : 0 ≤ v % (2 : Int) ^ len := Int.emod_nonneg _ (by omega)
  generalize v % (2 : Int) ^ len = w at h hnn
  cases w with
  | ofNat a =>
    have e : itb (Int.ofNat a) j = a.testBit j := rfl
    rw [e] at h
    simp only [hj, decide_true, Bool.true_and] at h
    rw [← h]; rfl
  | negSucc a => exact absurd hnn (by simp [Int.negSucc_not_nonneg])

/-- C08, little endian: field bit `j` (stream order) holds value bit `j`; every other bit of the
    buffer is unchanged; the buffer keeps its length. -/
theorem bfWriteLE_bits (vt : CInt) (buf : Buf) (base start len : Nat) (v : Int)
    (hb : base + (start + len + 7) / 8 ≤ buf.length) :
    (bfWriteLE vt buf base start len v).length = buf.length ∧
    (∀ j, j < len → bitLE (bfWriteLE vt buf base start len v) (8 * base + start + j) = itb v j) ∧
    (∀ i, ¬ (8 * base + start ≤ i ∧ i < 8 * base + start + len) →
      bitLE (bfWriteLE vt buf base start len v) i = bitLE buf i) := by
  obtain ⟨h1, h2⟩ := bfWriteLE_spec vt buf base start len v hb
  refine ⟨h1, ?_, ?_⟩
  · intro j hj
    unfold bitLE
    have hq : (8 * base + start + j) % 8 < 8 := Nat.mod_lt _ (by decide)
    rw [h2 _ _ hq]
    have hin : 8 * base + start ≤ 8 * ((8 * base + start + j) / 8) + (8 * base + start + j) % 8 ∧
        8 * ((8 * base + start + j) / 8) + (8 * base + start + j) % 8 < 8 * base + start + len := by omega
    rw [if_pos hin]; congr 1; omega
  · intro i hi
    unfold bitLE
    have hq : i % 8 < 8 := Nat.mod_lt _ (by decide)
    rw [h2 _ _ hq]
    have hout : ¬ (8 * base + start ≤ 8 * (i / 8) + i % 8 ∧ 8 * (i / 8) + i % 8 < 8 * base + start + len) := by omega
    rw [if_neg hout]

/-- C08, big endian: field bit `j` (stream order) holds value bit `len - 1 - j` (most significant first). -/
theorem bfWriteBE_bits (vt : CInt) (buf : Buf) (base start len : Nat) (v : Int)
    (hb : base + (start + len + 7) / 8 ≤ buf.length) :
    (bfWriteBE vt buf base start len v).length = buf.length ∧
    (∀ j, j < len → bitBE (bfWriteBE vt buf base start len v) (8 * base + start + j) = itb v (len - 1 - j)) ∧
    (∀ i, ¬ (8 * base + start ≤ i ∧ i < 8 * base + start + len) →
      bitBE (bfWriteBE vt buf base start len v) i = bitBE buf i) := by
  obtain ⟨h1, h2⟩ := bfWriteBE_spec vt buf base start len v hb
  refine ⟨h1, ?_, ?_⟩
  · intro j hj
    unfold bitBE
    have hq : 7 - (8 * base + start + j) % 8 < 8 := by omega
    rw [h2 _ _ hq]
    have hin : 8 * base + start ≤ 8 * ((8 * base + start + j) / 8) + 7 - (7 - (8 * base + start + j) % 8) ∧
        8 * ((8 * base + start + j) / 8) + 7 - (7 - (8 * base + start + j) % 8) < 8 * base + start + len := by omega
    rw [if_pos hin]; congr 1; omega
  · intro i hi
    unfold bitBE
    have hq : 7 - i % 8 < 8 := by omega
    rw [h2 _ _ hq]
    have hout : ¬ (8 * base + start ≤ 8 * (i / 8) + 7 - (7 - i % 8) ∧
        8 * (i / 8) + 7 - (7 - i % 8) < 8 * base + start + len) := by omega
    rw [if_neg hout]

/-- "touching no byte that does not overlap the field": bytes outside
    `[base + start/8, base + ceil((start+len)/8))` are not stored to (byte-level equality, both orders). -/
theorem bf_touch (bo : ByteOrder) (vt : CInt) (buf : Buf) (base start len : Nat) (v : Int) (k : Nat)
    (hk : k < base + start / 8 ∨ base + (start + len + 7) / 8 ≤ k) :
    getB (bfWrite bo vt buf base start len v) k = getB buf k := by
  cases bo
  · exact bfWriteLE_frame vt buf base start len v k hk
  · exact bfWriteBE_frame vt buf base start len v k hk

/-- the memcpy fast path (alignment multiple of 8, size 8/16/32/64, little-endian host, trace order =
    native order) writes the same bits as the little-endian macro would. -/
theorem memcpy_eq_bitfield (vt : CInt) (buf : Buf) (base n x : Nat) (hb : base + n ≤ buf.length) (i : Nat) :
    bitLE (memcpyLE n buf base x) i = bitLE (bfWriteLE vt buf base 0 (8 * n) (Int.ofNat x)) i := by
  have hb' : base + (0 + 8 * n + 7) / 8 ≤ buf.length := by omega
  obtain ⟨_, h2⟩ := bfWriteLE_spec vt buf base 0 (8 * n) (Int.ofNat x) hb'
  unfold bitLE
  have hq : i % 8 < 8 := Nat.mod_lt _ (by decide)
  rw [h2 _ _ hq, memcpyLE_get n buf base x _ hb]
  by_cases hin : base ≤ i / 8 ∧ i / 8 < base + n
  · have hin' : 8 * base + 0 ≤ 8 * (i / 8) + i % 8 ∧ 8 * (i / 8) + i % 8 < 8 * base + 0 + 8 * n := by omega
    rw [if_pos hin, if_pos hin', byte_of_testBit _ _ _ hq]
    show _ = x.testBit _
    congr 1; omega
  · have hin' : ¬ (8 * base + 0 ≤ 8 * (i / 8) + i % 8 ∧ 8 * (i / 8) + i % 8 < 8 * base + 0 + 8 * n) := by omega
    rw [if_neg hin, if_neg hin']

/-- no shift executed by either macro has an amount ≥ the width of its (promoted) operand:
    the only shift-related undefined behaviour of ISO C90 cannot occur, for any carrier of ≥ 2 bits. -/
theorem no_ub_shift (isLE : Bool) (W start len : Nat) (hW : 2 ≤ W) :
    ∀ p ∈ bfShifts isLE W start len, p.2 < p.1 :=
  bfShifts_ok isLE W start len hW

/-- `_bt_piecewise_rshift` is a plain (arithmetic) right shift -/
theorem piecewise_rshift_is_shift (W : Nat) (v : Int) (k : Nat) : pwRshift W v k = v >>> k :=
  pwRshift_eq W v k

/-! Non-vacuity: the hypotheses are met by concrete non-trivial calls, and the statements are
    evaluated there (these are tests of the statements, not proofs of the unbounded claim). -/
example : (0 : Nat) + (5 + 13 + 7) / 8 ≤ [0xff, 0xff, 0xff, 0xff].length := by decide
example : bfWriteLE ⟨16, true⟩ [0xff, 0xff, 0xff, 0xff] 0 5 13 (-2) = [0xdf, 0xff, 0xff, 0xff] := by decide
example : bfWriteBE ⟨16, true⟩ [0, 0, 0, 0] 1 3 13 (-2) = [0, 0x1f, 0xfe, 0] := by decide
example : (bfShifts true 64 3 61).length = 10 ∧ (bfShifts true 64 3 61).all (fun p => p.2 < p.1) := by decide

#print axioms itb_low_bits
#print axioms bfWriteLE_bits
#print axioms bfWriteBE_bits
#print axioms bf_touch
#print axioms memcpy_eq_bitfield
#print axioms no_ub_shift
#print axioms piecewise_rshift_is_shift
end BVM
