/-
  Props/C07.lean — property C07: while tracing is disabled, tracing functions have no effect;
  a tracing call is atomic with respect to the enable switch.

  `trace cfg d e args s` is the tracing function of event record type `e`; it is
  `traceBody ∘ traceClock`: the clock sample, then the test of the enable flag, then
  (`traceEnabled`) everything else.  Reading recorded in the evidence: the call is "past its
  clock sampling" from that test on; an asynchronous switch landing between the sample and the
  test is a switch before the call.
-/
import BVM.Proofs.RtDisabled
import BVM.Proofs.RtTw
namespace BVM

theorem tw_observable (s : St) (b : Bool) (t : List (Nat × Bool)) : (s.tw b t).c.observable = s.c.observable := rfl

theorem traceBody_enabled (cfg : Cfg) (d : DST) (e : ERT) (args : Args) (s : St) (he : s.c.isTracingEnabled = true) :
    traceBody cfg d e args s = traceEnabled cfg d e args ((s.ev (.traceCall e.name true)).setFlag true) := by
  unfold traceBody
  simp only [St.ev_c, he, Bool.not_true, Bool.false_eq_true, if_false]

/-- If tracing is disabled when the call tests it (right after its clock sample), the call changes
    neither the packet buffer, nor the write position, nor any counter or accessor result
    (`Ctx.observable`: packet size, content size, position, content offset, discarded count,
    sequence number, is-open, in-section, saved offsets), does not halt, and the only callbacks it
    invokes are clock-source callbacks. -/
theorem disabled_trace_is_noop (cfg : Cfg) (d : DST) (e : ERT) (args : Args) (s : St)
    (hd : (traceClock d s).c.isTracingEnabled = false) :
    (trace cfg d e args s).buf = s.buf ∧
    (trace cfg d e args s).c.observable = s.c.observable ∧
    (trace cfg d e args s).halted = s.halted ∧
    ∃ new, (trace cfg d e args s).log = new ++ s.log ∧
      ∀ ev ∈ new, (∀ k a b c, ev = .cb k a b c → k = .clock) ∧ (∀ a b c f, ev ≠ .store a b c f) ∧
        (∀ x y z, ev ≠ .deliver x y z) := by
  obtain ⟨h1, h2, h3, new, h4, h5⟩ := disabled_trace_is_noop_core cfg d e args s hd
  refine ⟨h1, h2, h3, new, h4, ?_⟩
  intro ev hev
  have := h5 ev hev
  refine ⟨?_, ?_, ?_⟩
  · intro k a b c he; subst he; exact this
  · intro a b c f he; subst he; exact this
  · intro x y z he; subst he; exact this

/-- From the moment tracing is disabled until it is enabled again (no toggle in the meantime): any
    number of tracing calls, of any event record types and arguments, leave buffer, position,
    counters and accessor results as they were — so re-enabling resumes recording in the same packet,
    at the same position. -/
theorem disabled_period_is_noop (cfg : Cfg) (d : DST) (calls : List (ERT × Args)) (s : St)
    (ht : s.p.toggles = []) (hd : s.c.isTracingEnabled = false) :
    let s' := (traceMany cfg d calls s).setEnabled true
    s'.buf = s.buf ∧ s'.c.observable = s.c.observable ∧ s'.halted = s.halted ∧ s'.c.isTracingEnabled = true := by
  obtain ⟨h1, h2, h3, _, _⟩ := disabled_period_core cfg d calls s ht hd
  exact ⟨h1, h2, h3, rfl⟩

/-- Atomicity with respect to the switch.  `s.tw b t` is the state `s` with the enable flag set to
    an arbitrary `b` and the platform's toggle script replaced by an arbitrary `t` (toggles at any
    callback of the rest of the call, or none).  For a call that has passed its enable test (flag
    raised), the outcome is the same up to the final value of the enable flag: same buffer, same
    event log (records, packet switches, deliveries, discards), same context, same halting. -/
theorem trace_atomic_wrt_toggle (cfg : Cfg) (d : DST) (e : ERT) (args : Args) (s : St)
    (h : s.c.inTracingSection = true) (b : Bool) (t : List (Nat × Bool)) :
    (traceEnabled cfg d e args (s.tw b t)).buf = (traceEnabled cfg d e args s).buf ∧
    (traceEnabled cfg d e args (s.tw b t)).log = (traceEnabled cfg d e args s).log ∧
    (traceEnabled cfg d e args (s.tw b t)).c.observable = (traceEnabled cfg d e args s).c.observable ∧
    (traceEnabled cfg d e args (s.tw b t)).halted = (traceEnabled cfg d e args s).halted ∧
    (traceEnabled cfg d e args (s.tw b t)).p.clock = (traceEnabled cfg d e args s).p.clock ∧
    (traceEnabled cfg d e args (s.tw b t)).p.cbSeq = (traceEnabled cfg d e args s).p.cbSeq := by
  obtain ⟨b', e'⟩ := traceEnabled_tw cfg d e args s b t h
  exact ⟨(congrArg St.buf e').trans (St.tw_buf _ _ _), (congrArg St.log e').trans (St.tw_log _ _ _),
    (congrArg (fun x => x.c.observable) e').trans (tw_observable _ _ _),
    (congrArg St.halted e').trans (St.tw_halted _ _ _),
    (congrArg (fun x => x.p.clock) e').trans (St.tw_p_clock _ _ _),
    (congrArg (fun x => x.p.cbSeq) e').trans (St.tw_p_cbSeq _ _ _)⟩

/-- the same, for the whole tracing function after its clock sample: a call that found tracing
    enabled completes exactly as it would under any other toggle script -/
theorem traceBody_completes (cfg : Cfg) (d : DST) (e : ERT) (args : Args) (s : St)
    (he : s.c.isTracingEnabled = true) (t : List (Nat × Bool)) :
    (traceBody cfg d e args (s.tw true t)).log = (traceBody cfg d e args s).log ∧
    (traceBody cfg d e args (s.tw true t)).buf = (traceBody cfg d e args s).buf := by
  have hb1 := traceBody_enabled cfg d e args s he
  have hb2 := traceBody_enabled cfg d e args (s.tw true t) rfl
  obtain ⟨b', e'⟩ := traceEnabled_tw cfg d e args
    ((s.ev (.traceCall e.name true)).setFlag true) true t rfl
  have hb3 : traceBody cfg d e args (s.tw true t) =
      (traceEnabled cfg d e args ((s.ev (.traceCall e.name true)).setFlag true)).tw b' t := hb2.trans e'
  exact ⟨(congrArg St.log hb3).trans ((St.tw_log _ _ _).trans (congrArg St.log hb1).symm),
    (congrArg St.buf hb3).trans ((St.tw_buf _ _ _).trans (congrArg St.buf hb1).symm)⟩

/-! Non-vacuity (tests of the statements on a concrete run, not proofs of the unbounded claim) -/
def exDst7 : DST :=
  { name := "s", id := 0, clock := some ⟨"c", ⟨32, false⟩⟩,
    feat := { totalSize := .int false 16 8, contentSize := .int false 16 8, tsBegin := none, tsEnd := none,
              discarded := none, seqNum := none, ertId := none, erTs := some (.int false 8 8) },
    pcExtra := [], ercc := none,
    erts := [{ name := "e", id := 0, sc := none, p := some ⟨1, [⟨"x", .el (.sc (.int false 8 8))⟩]⟩ }] }
def exCfg7 : Cfg :=
  { bo := .le, fast := true, uuid := [], feat := { magic := none, uuid := false, dstId := none }, dsts := [exDst7] }
def exS7 : St := runOps exCfg7 exDst7 [.open_, .trace "e" [("p_x", [.num 7])], .enable false] (rtInit 8 {})

example : exS7.halted = false ∧ exS7.c.isTracingEnabled = false ∧ exS7.p.toggles = [] ∧ exS7.c.packetIsOpen = true ∧
    (traceClock exDst7 exS7).c.isTracingEnabled = false := by decide +kernel

#print axioms tw_observable
#print axioms traceBody_enabled
#print axioms disabled_trace_is_noop
#print axioms disabled_period_is_noop
#print axioms trace_atomic_wrt_toggle
#print axioms traceBody_completes
end BVM
