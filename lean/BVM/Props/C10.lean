/-
  Props/C10.lean — property C10: the front end is total (any input gives a configuration or a
  configuration error; whenever loading succeeds, generation succeeds and the C compiles).

  What a model can carry of this property, and what is proved here:
   * `include_recursion_bounded`: the recursion of `_process_node_include` is bounded — with `N` files in
     the inclusion directories it never nests deeper than `4 * N + 4` calls, whatever the documents hold
     (inclusion cycles included: they end in a configuration error, `Props/C12.recursive_inclusion_is_error`),
     so there is no unbounded recursion in this stage;
   * `non_object_field_type_is_left_alone`, `null_members_are_skipped`, `inherit_from_non_object_is_config_error`:
     the expansion stage hands values it does not understand to the schema stage that follows instead of
     failing (the shapes behind the repaired findings F22, F23);
   * `model_verdict_total`: the model of the loader answers accept / configuration error / other exception /
     unknown (fuel) on every input; which of them the real loader gives is compared on every run.
  Not carried by any theorem, and said so: "all byte strings" (PyYAML and Python I/O have no model — raw
  byte corruption is run implementation-side only), absence of hangs (a 20 s watchdog per load), "generation
  succeeds and the C compiles" (the real generator and gcc on every accepted document), and that the
  effective-configuration schema implies the shapes `_create_config` relies on (no crash was found by the
  structural fault operators; `load3` reproduces the real verdicts including the former crashes).
-/
import BVM.Proofs.Terminate
import BVM.Model.Load
namespace BVM

/-- no unbounded recursion in inclusion processing -/
theorem include_recursion_bounded (W : World) (fuel : Nat) (y : Y) (h : 4 * W.files.length + 4 < fuel) :
    procInclude W fuel [] .trace y ≠ .error .fuel :=
  procInclude_bounded W fuel [] .trace y ⟨List.nodup_nil, fun _ h => by simp at h⟩ (by simpa [Kind.depth] using h)

theorem include_recursion_bounded_v2 (W : World) (fuel : Nat) (y : Y) (h : 4 * W.files.length + 3 < fuel) :
    procInclude W fuel [] .meta2 y ≠ .error .fuel :=
  procInclude_bounded W fuel [] .meta2 y ⟨List.nodup_nil, fun _ h => by simp at h⟩ (by simpa [Kind.depth] using h)

/-- a boolean, a number or a sequence where a field type is expected is not touched by alias resolution
    (it used to raise TypeError) -/
theorem non_object_field_type_is_left_alone (v3 : Bool) (fuel : Nat) (st : ASt) (y : Y)
    (h1 : y.isMap = false) (h2 : y.isStr = false) : resolveVal v3 (fuel + 1) st y = .ok (y, st) := by
  cases y <;> simp_all [resolveVal, Y.isMap, Y.isStr]

theorem non_object_is_not_inherited (v3 : Bool) (fuel : Nat) (y : Y) (h1 : y.isMap = false) :
    inheritVal v3 (fuel + 1) y = .ok y := by
  cases y <;> simp_all [inheritVal, Y.isMap]

/-- `members: null` (valid: no members) is skipped by alias resolution (it used to fail an assertion) -/
theorem null_members_are_skipped (fuel : Nat) (st : ASt) (cls : Y) :
    resolveVal true (fuel + 2) st (.map [("class", cls), ("members", .null)]) =
      .ok (.map [("class", cls), ("members", .null)], st) := by
  simp [resolveVal, modKeysS, modKeyS, ftPropNames, membersKey, Y.isNull, bind, Except.bind]

/-- inheriting from something that is not a field type object is a configuration error, not a crash -/
theorem inherit_from_non_object_is_config_error (fuel : Nat) (b : Bool) :
    inheritVal true (fuel + 2) (.map [("$inherit", .bool b), ("size", .int 8)]) =
      .error (.other "Inherited field type is not a field type object") := by
  simp [inheritVal, modKeysS, modKeyS, ftPropNames, membersKey, kvGet, kvHas, bind, Except.bind]

/-- a member node that is not a single-property mapping (`{}`, two properties, a scalar) is left as it is by member
    normalisation and by the alias / inheritance passes over the extra members, for the schema stage to report (it
    used to raise `IndexError`: finding F30) -/
theorem malformed_member_nodes_are_skipped (fuel : Nat) (junk : Y) (h : ∀ n v, junk ≠ .map [(n, v)]) (rest : List Y) :
    normMembers (fuel + 1) (junk :: rest) =
      (match normMembers (fuel + 1) rest with
       | .ok r => .ok (junk :: r)
       | .error e => .error e) := by
  have key : ∀ (f : Y → FR Y), f junk = .ok junk → mapSeq f (junk :: rest) =
      (match mapSeq f rest with | .ok r => .ok (junk :: r) | .error e => .error e) := by
    intro f hf
    simp only [mapSeq, hf, bind, Except.bind]
    cases mapSeq f rest <;> rfl
  simp only [normMembers]
  apply key
  cases junk with
  | map kvs =>
    cases kvs with
    | nil => rfl
    | cons kv r =>
      obtain ⟨n, v⟩ := kv
      cases r with
      | nil => exact absurd rfl (h n v)
      | cons kv2 r2 => rfl
  | _ => rfl

/-- the model of the loader always answers -/
theorem model_verdict_total (store : Store) (W : World) (fuel : Nat) (cfg : KVs) :
    ∃ v : Verdict, verdictOf (load3 store W fuel cfg) = v := ⟨_, rfl⟩

/-! ### non-vacuity -/
example : (normMembers 3 [.map [], .str "junk", .map [("a", .int 1), ("b", .int 2)], .map [("x", .str "u8")]]).isOkWith
    [.map [], .str "junk", .map [("a", .int 1), ("b", .int 2)], .map [("x", .map [("field-type", .str "u8")])]] = true := by
  decide +kernel

def c10W : World := { dirs := [[("a.yaml", .map [("$include", .str "b.yaml")]), ("b.yaml", .map [("$include", .str "a.yaml")])]] }

example : 4 * c10W.files.length + 4 < 16 := by decide

/-- a two-file inclusion cycle: bounded, and a configuration error -/
example : procInclude c10W 16 [] .trace (.map [("$include", .str "a.yaml")]) = .error (.includeCycle "a.yaml") :=
  (FR.isErr_iff _ _).mp (by decide +kernel)

end BVM

#print axioms BVM.include_recursion_bounded
#print axioms BVM.include_recursion_bounded_v2
#print axioms BVM.non_object_field_type_is_left_alone
#print axioms BVM.non_object_is_not_inherited
#print axioms BVM.null_members_are_skipped
#print axioms BVM.inherit_from_non_object_is_config_error
#print axioms BVM.model_verdict_total
#print axioms BVM.malformed_member_nodes_are_skipped
