/-
  Props/C13.lean — property C13: generation is a deterministic function of the configuration; IDs are
  stable.

  (1) IDs.  config.py assigns `enumerate(sorted(types, key=name))`; `sortedNames`/`idOf` transcribe it
  (Python compares `str` by code point, as Lean's `String` order does; names are identifiers).
    * ids_perm_invariant — the assignment does not depend on the order in which the names are listed;
    * ids_sorted — the assigned order is ascending name order; ids_complete — it is a permutation of
      the names (every name gets exactly one position);
  (2) Hash-seed independence.  CPython's hash randomisation is represented as "iteration order of a
  set whose elements hash by a string is an arbitrary permutation".  `iterSites` is the table of every
  iteration over such a collection, REGENERATED from /repo on every run (harness/itersites.py):
    * set_iterations_sorted — every iteration whose body contributes to generated text in iteration
      order over a hash-randomised collection goes through a sort (Jinja `| sort` / Python `sorted`).
  A change that drops a `| sort` changes the regenerated table and this theorem stops checking; the
  check then runs the real generator under several PYTHONHASHSEED values and permutations of the
  mappings and byte-compares the outputs (that, not the theorem, exhibits the failing input).
-/
import BVM.Model.Api
import BVM.Gen.IterSites
namespace BVM

theorem str_le_total (a b : String) : (decide (a ≤ b) || decide (b ≤ a)) = true := by
  rcases String.le_total a b with h | h <;> simp [h]

theorem sortedNames_perm (l : List String) : (sortedNames l).Perm l := List.mergeSort_perm l _

theorem ids_sorted (l : List String) : (sortedNames l).Pairwise (fun a b => a ≤ b) := by
  have := List.pairwise_mergeSort (le := fun a b => decide (a ≤ b))
    (fun a b c h1 h2 => by simp at h1 h2 ⊢; exact String.le_trans h1 h2)
    (fun a b => str_le_total a b) l
  simpa [sortedNames] using this

theorem ids_perm_invariant (l₁ l₂ : List String) (h : l₁.Perm l₂) : sortedNames l₁ = sortedNames l₂ := by
  apply List.Perm.eq_of_pairwise (le := fun a b => a ≤ b)
  · intro a b _ _ h1 h2; exact String.le_antisymm h1 h2
  · exact ids_sorted l₁
  · exact ids_sorted l₂
  · exact (sortedNames_perm l₁).trans (h.trans (sortedNames_perm l₂).symm)

theorem ids_complete (l : List String) (n : String) : n ∈ sortedNames l ↔ n ∈ l :=
  (sortedNames_perm l).mem_iff

/-- with distinct names, positions are distinct: the numeric ID determines the type -/
theorem ids_injective (l : List String) (hd : l.Nodup) : (sortedNames l).Nodup :=
  (sortedNames_perm l).nodup_iff.mpr hd

theorem set_iterations_sorted : ∀ s ∈ iterSites, s.emits = true → s.randomized = true → s.isSorted = true := by
  decide

/-! Non-vacuity -/
example : sortedNames ["zeta", "Beta", "alpha", "a_b"] = ["Beta", "a_b", "alpha", "zeta"] := by
  have h : sortedNames ["Beta", "a_b", "alpha", "zeta"] = ["Beta", "a_b", "alpha", "zeta"] :=
    List.mergeSort_of_pairwise (by decide)
  rw [← h]
  exact ids_perm_invariant _ _ (by decide)
example : (iterSites.filter fun s => s.emits && s.randomized).length ≥ 10 := by decide

#print axioms str_le_total
#print axioms sortedNames_perm
#print axioms ids_sorted
#print axioms ids_perm_invariant
#print axioms ids_complete
#print axioms ids_injective
#print axioms set_iterations_sorted
end BVM
