/-
  Props/C18.lean — property C18: a barectf 2 configuration behaves exactly like its barectf 3
  equivalent.

  Model: Model/V2.lean (`convert2`: barectf 2 inclusions, field type expansion and
  `_transform_config_node` / `_conv_*`; `expand2` = `convert2` then the barectf 3 pipeline).
  Tie: checks/c18.py compares, on generated barectf 2 documents (plain and decorated with aliases,
  inheritance, inclusions), the node the real barectf 2 parser hands to the barectf 3 parser with
  `convert2`, and the real effective document with `expand2`; the abstract field types of this file are
  rendered by the Lean driver and by the harness's own renderers and compared; the property's relation
  (identical generated files from the barectf 2 document and from the hand-derived barectf 3 document of
  the same abstract configuration; version 2 / 3 reported) is evaluated on the implementation.

  Proved, for every abstract field type expressible in the barectf 2 dialect (integers with all optional
  properties, enumerations, reals, strings, static and dynamic arrays, structures, nested to any depth):
   * `field_type_conversion`: converting its barectf 2 spelling yields exactly its barectf 3 spelling;
   * `enum_mappings`: the mappings of a label are the values of the members bearing it, in member order;
     implicit values are 0 / previous (last) value + 1;
   * `prefix_split`, `prefix_no_trailing_underscore`: identifier prefix = file name prefix followed by
     underscores only.
   * `stream_conversion`: a whole abstract data stream type (reserved packet context / event header members,
     extra members, common context, event record types) converts to its barectf 3 spelling: features inferred
     from the reserved members, default clock from the property mappings.
  Not proved (covered by the correspondence and the implementation-side oracle only): the metadata level of
  the conversion (packet header features, clock type renames, `$default-stream`, options, environment) and that
  equal effective documents give equal generated files.
-/
import BVM.Proofs.V2
import BVM.Proofs.V2Stream
namespace BVM

theorem field_type_conversion (a : AFt) (fuel : Nat) (h : a.depth ≤ fuel) : convFt fuel a.r2 = .ok a.r3 :=
  convFt_r2 a fuel h

theorem struct_members_in_order (fs : List (String × AFt)) (fuel : Nat) (h : AFt.depthFields fs ≤ fuel) :
    (AFt.r2Fields fs).mapM (convField (convFt fuel)) = .ok (AFt.r3Members fs) := convFields_r2 fs fuel h

theorem int_conversion (i : AInt) : convIntFt i.r2 = i.r3 := convIntFt_r2 i

theorem enum_mappings (ms : List AMember) (l : String) :
    kvGet l (mappingsOf ms) =
      if valsOf l (memberVals ms 0) = [] then none else some (.seq (valsOf l (memberVals ms 0))) :=
  mappings_lookup ms l

theorem enum_conversion (ms : List AMember) :
    convEnumMembers (ms.map AMember.r2) 0 [] = .ok (mappingsOf ms) := convEnumMembers_spec ms 0 []

theorem enum_implicit_first (l : String) (r : List AMember) :
    (memberVals (.implicit l :: r) 0).head? = some (l, .int 0) := implicit_first l r

theorem enum_implicit_after_value (l l' : String) (v : Int) (r : List AMember) (cur : Int) :
    memberVals (.value l v :: .implicit l' :: r) cur = (l, .int v) :: (l', .int (v + 1)) :: memberVals r (v + 1 + 1) :=
  implicit_after_value l l' v r cur

theorem enum_implicit_after_range (l l' : String) (a b : Int) (r : List AMember) (cur : Int) :
    memberVals (.range l a b :: .implicit l' :: r) cur =
      (l, .seq [.int a, .int b]) :: (l', .int (b + 1)) :: memberVals r (b + 1 + 1) := implicit_after_range l l' a b r cur

theorem v2_prefix_split (p : String) : ∃ n, p.toList = (rstripUnderscores p).toList ++ List.replicate n '_' :=
  prefix_split p

theorem v2_file_prefix_no_trailing_underscore (p : String) : (rstripUnderscores p).toList.getLast? ≠ some '_' :=
  prefix_no_trailing_underscore p

/-- a whole data stream type: the barectf 2 spelling converts to the barectf 3 spelling — features enabled
    exactly for the reserved members that exist (with their converted types), default clock inferred from the
    property mappings (event header `timestamp` first, then `timestamp_begin`, then `timestamp_end`), the other
    packet context members kept as extra members in order, event record types and log levels carried over.
    Preconditions: no user member bears a reserved name (they would be features), and `timestamp_begin` /
    `timestamp_end` are mapped to the same clock (otherwise the converter reports a configuration error). -/
theorem stream_conversion (s : AStream) (hx : ExtrasOK s) (hc : ClocksAgree s) (fuel : Nat)
    (h1 : 1 ≤ fuel) (hd : s.depth ≤ fuel) : convDst fuel s.r2 = .ok s.r3 := convDst_r2 s hx hc fuel h1 hd

theorem stream_default_clock (s : AStream) (hx : ExtrasOK s) (hc : ClocksAgree s) :
    defaultClock s.pcFields s.ehFields = .ok (s.clock.map Y.str) := defaultClock_r2 s hx hc

theorem stream_features (s : AStream) (hx : ExtrasOK s) (fuel : Nat) (h : 1 ≤ fuel) :
    dstFeatures fuel s.pcFields s.ehFields = .ok s.features := dstFeatures_r2 s hx fuel h

/-! ### non-vacuity -/

def c18Stream : AStream :=
  { isDefault := true,
    packetSize := ⟨32, false, false, some 32, none, none, none⟩,
    contentSize := ⟨32, false, false, none, none, none, none⟩,
    tsBegin := some ⟨64, false, false, none, none, some "clk", none⟩,
    tsEnd := some ⟨64, false, false, none, none, some "clk", none⟩,
    discarded := none, seqNum := some ⟨16, false, false, none, none, none, none⟩,
    extras := [("cpu", .int ⟨8, false, false, none, none, none, none⟩)],
    eh := some (some ⟨8, false, false, none, none, none, none⟩, none),
    ecc := none,
    events := [("e", ⟨some (.int 3), none, some ⟨none, [("x", .str none)]⟩⟩)] }

example : FR.isOkWith (convDst 8 c18Stream.r2) c18Stream.r3 = true := by decide +kernel
example : c18Stream.clock = some "clk" := by decide +kernel


def c18Ft : AFt := .struct (some 8) [
  ("a", .int ⟨12, true, true, some 4, some "hex", some "clk", some "utf8"⟩),
  ("e", .enum ⟨8, false, false, none, none, none, none⟩ [.implicit "X", .range "Y" 5 7, .implicit "X", .value "Z" 20, .implicit "Y"]),
  ("arr", .darr (.sarr 3 (.float true (some 64)))),
  ("s", .str (some "ascii"))]

example : c18Ft.depth ≤ 5 := by decide

example : mappingsOf [.implicit "X", .range "Y" 5 7, .implicit "X", .value "Z" 20, .implicit "Y"] =
    [("X", .seq [.int 0, .int 8]), ("Y", .seq [.seq [.int 5, .int 7], .int 21]), ("Z", .seq [.int 20])] := by
  decide +kernel

example : FR.isOkWith (convFt 5 c18Ft.r2) c18Ft.r3 = true := by decide +kernel

example : rstripUnderscores "T_x__" = "T_x" := by decide +kernel

/-- a whole barectf 2 document through `convert2` -/
def c18Doc : KVs :=
  [("version", .str "2.2"), ("prefix", .str "my_"),
   ("metadata", .map [
     ("type-aliases", .map [("u8", .map [("class", .str "int"), ("size", .int 8)])]),
     ("clocks", .map [("clk", .map [("freq", .int 1000), ("$return-ctype", .str "uint32_t")])]),
     ("trace", .map [("byte-order", .str "le")]),
     ("streams", .map [("s", .map [
        ("packet-context-type", .map [("class", .str "struct"), ("fields", .map [
            ("timestamp_begin", .map [("class", .str "int"), ("size", .int 32),
                ("property-mappings", .seq [.map [("type", .str "clock"), ("name", .str "clk"), ("property", .str "value")]])]),
            ("timestamp_end", .map [("class", .str "int"), ("size", .int 32),
                ("property-mappings", .seq [.map [("type", .str "clock"), ("name", .str "clk"), ("property", .str "value")]])]),
            ("packet_size", .str "u8"), ("content_size", .str "u8"), ("cpu", .str "u8")])]),
        ("events", .map [("e", .map [("payload-type", .map [("class", .str "struct"), ("fields", .map [("x", .str "u8")])])])])])])])]

example : FR.isOkWith (convert2 { dirs := [] } 32 c18Doc)
    [("options", .map [("code-generation", .map [("prefix", .map [("identifier", .str "my_"), ("file-name", .str "my")])])]),
     ("trace", .map [("type", .map [
        ("trace-byte-order", .str "le"),
        ("clock-types", .map [("clk", .map [("frequency", .int 1000), ("$c-type", .str "uint32_t")])]),
        ("$features", .map [("magic-field-type", .bool false), ("uuid-field-type", .bool false),
                            ("data-stream-type-id-field-type", .bool false)]),
        ("data-stream-types", .map [("s", .map [
            ("$default-clock-type-name", .str "clk"),
            ("$features", .map [
              ("packet", .map [("total-size-field-type", .map [("class", .str "uint"), ("size", .int 8)]),
                               ("content-size-field-type", .map [("class", .str "uint"), ("size", .int 8)]),
                               ("beginning-timestamp-field-type", .map [("class", .str "uint"), ("size", .int 32)]),
                               ("end-timestamp-field-type", .map [("class", .str "uint"), ("size", .int 32)]),
                               ("discarded-event-records-counter-snapshot-field-type", .bool false),
                               ("sequence-number-field-type", .bool false)]),
              ("event-record", .map [("type-id-field-type", .bool false), ("timestamp-field-type", .bool false)])]),
            ("packet-context-field-type-extra-members", .seq [.map [("cpu", .map [("field-type", .map [("class", .str "uint"), ("size", .int 8)])])]]),
            ("event-record-types", .map [("e", .map [("payload-field-type", .map [("class", .str "struct"),
                ("members", .seq [.map [("x", .map [("field-type", .map [("class", .str "uint"), ("size", .int 8)])])]])])])])])])])])] = true := by
  decide +kernel

end BVM

#print axioms BVM.field_type_conversion
#print axioms BVM.struct_members_in_order
#print axioms BVM.int_conversion
#print axioms BVM.enum_mappings
#print axioms BVM.enum_conversion
#print axioms BVM.enum_implicit_first
#print axioms BVM.enum_implicit_after_value
#print axioms BVM.enum_implicit_after_range
#print axioms BVM.v2_prefix_split
#print axioms BVM.v2_file_prefix_no_trailing_underscore
#print axioms BVM.stream_conversion
#print axioms BVM.stream_default_clock
#print axioms BVM.stream_features
