/-
  Props/C15.lean — property C15: the metadata states every configured descriptive attribute in
  well-formed TSDL.

  Proved over Model/Meta.lean (transcription of `_filt_escape_dq` and of the emission tests of
  metadata.j2; compared on every run with the real filter on generated strings and with the parsed
  real metadata):
    * unescape_escape — a TSDL reader recovers exactly the configured string from the literal;
    * escaped_has_no_bare_quote — the escaped text contains no unescaped double quote and no raw
      new-line, so the literal cannot end early or span lines (the CTF 1.8 lexical grammar excludes
      both from s-char);
    * loglevel_always_stated — an event record type with a log level, including level 0, gets its
      `loglevel` line with that value;
    * env_value_forms / range_forms — numbers verbatim, strings quoted and escaped; single values vs
      `lo ... hi` ranges.
  "The metadata parses under the grammar" and "states the configured value of every attribute" are
  established per sample by the check's strict TSDL parser and attribute-by-attribute comparison with
  the configuration objects, not by a theorem about the emitted text as a whole.
-/
import BVM.Model.Meta
namespace BVM

theorem unescape_escape : ∀ l : List Char, unescapeDqL (escapeDqL l) = l := by
  intro l
  induction l with
  | nil => rfl
  | cons c r ih =>
    by_cases h1 : c = '\\'
    · subst h1; simp [escapeDqL, unescapeDqL, ih]
    · by_cases h2 : c = '"'
      · subst h2; simp [escapeDqL, unescapeDqL, ih]
      · by_cases h3 : c = '\n'
        · subst h3; simp [escapeDqL, unescapeDqL, ih]
        · have e : escapeDqL (c :: r) = c :: escapeDqL r := by
            simp [escapeDqL, h1, h2, h3]
          rw [e]
          have u : unescapeDqL (c :: escapeDqL r) = c :: unescapeDqL (escapeDqL r) := by
            simp [unescapeDqL, h1]
          rw [u, ih]

theorem escaped_has_no_bare_quote : ∀ l : List Char, bareQuoteL (escapeDqL l) = false := by
  intro l
  induction l with
  | nil => rfl
  | cons c r ih =>
    by_cases h1 : c = '\\'
    · subst h1; simp [escapeDqL, bareQuoteL, ih]
    · by_cases h2 : c = '"'
      · subst h2; simp [escapeDqL, bareQuoteL, ih]
      · by_cases h3 : c = '\n'
        · subst h3; simp [escapeDqL, bareQuoteL, ih]
        · have e : escapeDqL (c :: r) = c :: escapeDqL r := by
            simp [escapeDqL, h1, h2, h3]
          rw [e]
          simp [bareQuoteL, h1, h2, h3, ih]

theorem loglevel_always_stated (v : Int) : logLevelLine (some v) = some ("loglevel = " ++ toString v ++ ";") := rfl

theorem loglevel_zero_stated : logLevelLine (some 0) = some "loglevel = 0;" := by decide

theorem env_value_forms (name : String) (v : Int) (s : String) :
    envLine name (.int v) = name ++ " = " ++ toString v ++ ";" ∧
    envLine name (.str s) = name ++ " = \"" ++ escapeDq s ++ "\";" := ⟨rfl, rfl⟩

theorem range_forms (lo hi : Int) :
    rangeStr lo lo = toString lo ∧ (lo ≠ hi → rangeStr lo hi = toString lo ++ " ... " ++ toString hi) := by
  constructor
  · simp [rangeStr]
  · intro h; simp [rangeStr, h]

/-! Non-vacuity -/
example : escapeDqL "a\"b\\c\nd".toList = "a\\\"b\\\\c\\nd".toList := by decide

#print axioms unescape_escape
#print axioms escaped_has_no_bare_quote
#print axioms loglevel_always_stated
#print axioms loglevel_zero_stated
#print axioms env_value_forms
#print axioms range_forms
end BVM
