/-
  Props/C16.lean — property C16: the in-tracing-section flag brackets every modification of the packet.

  `runOps cfg d ops (rtInit bytes p)` is the execution of an arbitrary history `ops` of public API
  calls on a context of data stream type `d` of an arbitrary configuration `cfg`, on a buffer of
  `bytes` bytes, against an arbitrary platform script `p` (answers, clock, toggles, buffer swaps).
  Every store into the packet buffer is logged as `Ev.store off n flag isOpen` with the value the
  flag had at that instant; every callback entry as `Ev.cb kind seq flag isOpen`; every return of a
  public API call as `Ev.ret api ctx bufLen`.

  Reading recorded in the evidence: the clock callback invoked at the very entry of a tracing
  function (and in the preamble of a platform-initiated open/close) runs before the section is
  entered; `callbacks_under_flag` therefore starts at the test of the enable flag (`traceBody`).
-/
import BVM.Proofs.RtFlag
namespace BVM

/-- every store into the packet buffer happens while the flag reads 1 — all configurations, all
    histories, all platform scripts, all buffer sizes -/
theorem stores_under_flag (cfg : Cfg) (d : DST) (ops : List Op) (bytes : Nat) (p : Plat) :
    ∀ off n f o, Ev.store off n f o ∈ (runOps cfg d ops (rtInit bytes p)).log → f = true := by
  intro off n f o hmem
  have h := (runOps_top cfg d ops (rtInit bytes p) (fun _ => rfl)).1
  exact Ext.all h (by intro e he; simp [rtInit] at he) _ hmem

/-- the flag reads 0 whenever a public API call made from outside a tracing call returns
    (all paths, including the discard paths) -/
theorem flag_restored (cfg : Cfg) (d : DST) (ops : List Op) (bytes : Nat) (p : Plat) :
    ∀ api c bl, Ev.ret api c bl ∈ (runOps cfg d ops (rtInit bytes p)).log → c.inTracingSection = false := by
  intro api c bl hmem
  have h := (runOps_top cfg d ops (rtInit bytes p) (fun _ => rfl)).1
  exact Ext.all h (by intro e he; simp [rtInit] at he) _ hmem

/-- inside every platform callback invoked on behalf of a tracing call (is-back-end-full, open,
    close, and the clock reads nested in those) the flag reads 1; so does it at every store of
    that call — from whatever state the call was entered -/
theorem callbacks_under_flag (cfg : Cfg) (d : DST) (e : ERT) (args : Args) (s : St) :
    ∃ new, (traceBody cfg d e args s).log = new ++ s.log ∧
      (∀ k seq f o, Ev.cb k seq f o ∈ new → f = true) ∧
      (∀ off n f o, Ev.store off n f o ∈ new → f = true) := by
  obtain ⟨new, h1, h2⟩ := traceBody_sec cfg d e args s
  exact ⟨new, h1, fun k seq f o hm => h2 _ hm, fun off n f o hm => h2 _ hm⟩

/-- a tracing call entered with the flag down returns with the flag down -/
theorem trace_flag_down (cfg : Cfg) (d : DST) (e : ERT) (args : Args) (s : St)
    (h : s.c.inTracingSection = false) (hh : (trace cfg d e args s).halted = false) :
    (trace cfg d e args s).c.inTracingSection = false :=
  (trace_top cfg d e args s h).2 hh

/-! Non-vacuity: a concrete configuration and history whose log does contain stores, tracer-invoked
    callbacks and API returns (so the theorems above are about something). -/
def exDst : DST :=
  { name := "s", id := 0, clock := none,
    feat := { totalSize := .int false 16 8, contentSize := .int false 16 8, tsBegin := none, tsEnd := none,
              discarded := none, seqNum := none, ertId := none, erTs := none },
    pcExtra := [], ercc := none,
    erts := [{ name := "e", id := 0, sc := none, p := some ⟨1, [⟨"x", .el (.sc (.int false 8 8))⟩]⟩ }] }
def exCfg : Cfg :=
  { bo := .le, fast := true, uuid := [],
    feat := { magic := some (.int false 32 8), uuid := false, dstId := none }, dsts := [exDst] }
def exRun : St := runOps exCfg exDst [.open_, .trace "e" [("p_x", [.num 7])], .trace "e" [("p_x", [.num 9])]] (rtInit 9 {})

example : exRun.halted = false ∧
    (exRun.log.any fun e => match e with | .store _ _ true _ => true | _ => false) = true ∧
    (exRun.log.any fun e => match e with | .cb .close _ true _ => true | _ => false) = true ∧
    (exRun.log.any fun e => match e with | .ret "trace" _ _ => true | _ => false) = true := by decide +kernel

#print axioms stores_under_flag
#print axioms flag_restored
#print axioms callbacks_under_flag
#print axioms trace_flag_down
end BVM
