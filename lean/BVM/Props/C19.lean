/-
  Props/C19.lean — property C19: generated names carry the configured prefixes; tracers with
  different prefixes coexist.

  `symbolsOf` / `fileNamesOf` / `shorthandMacros` / `cliPrefixes` (Model/Api.lean) transcribe
  common.j2, barectf.h.j2, barectf.c.j2, codegen.py and the CLI's `--prefix` handling; the check
  compares them on every run with `nm -g --defined-only` of the compiled object, with the file names
  the CLI writes, and links two tracers into one program.
  Reading recorded in the evidence: "different prefixes" = neither is a prefix of the other
  (`prefix_overlap_possible` shows that merely unequal prefixes do not suffice).
-/
import BVM.Model.Api
namespace BVM

theorem symbols_prefixed (o : GenOpts) (c : Cfg) : ∀ s ∈ symbolsOf o c, ∃ r, s = o.identPrefix ++ r := by
  intro s hs
  unfold symbolsOf at hs
  rcases List.mem_append.mp hs with h | h
  · obtain ⟨n, _, rfl⟩ := List.mem_map.mp h
    exact ⟨n, rfl⟩
  · obtain ⟨l, hl, hm⟩ := List.mem_flatten.mp h
    obtain ⟨d, _, rfl⟩ := List.mem_map.mp hl
    unfold dstSymbols at hm
    rcases List.mem_append.mp hm with h1 | h1
    · simp at h1
      rcases h1 with rfl | rfl
      · exact ⟨d.name ++ "_open_packet", by simp [String.append_assoc]⟩
      · exact ⟨d.name ++ "_close_packet", by simp [String.append_assoc]⟩
    · obtain ⟨e, _, rfl⟩ := List.mem_map.mp h1
      exact ⟨d.name ++ "_trace_" ++ e.name, by simp [String.append_assoc]⟩

theorem files_prefixed (o : GenOpts) : ∀ f ∈ fileNamesOf o, f = "metadata" ∨ ∃ r, f = o.filePrefix ++ r := by
  intro f hf
  unfold fileNamesOf at hf
  simp at hf
  rcases hf with rfl | rfl | rfl | rfl
  · exact Or.inr ⟨".h", rfl⟩
  · exact Or.inr ⟨"-bitfield.h", rfl⟩
  · exact Or.inr ⟨".c", rfl⟩
  · exact Or.inl rfl

/-- CLI `--prefix p`: identifier prefix `p`, file name prefix `p` without its trailing underscores -/
theorem cli_prefix_override (p : String) : (cliPrefixes p).1 = p ∧ (cliPrefixes p).2 = rstripUnderscore p := ⟨rfl, rfl⟩

/-- two strings with a common extension: one of the two prefixes is a prefix of the other -/
theorem prefix_of_common (p₁ p₂ r₁ r₂ : String) (h : p₁ ++ r₁ = p₂ ++ r₂) :
    (∃ t, p₂ = p₁ ++ t) ∨ (∃ t, p₁ = p₂ ++ t) := by
  have hl : p₁.toList ++ r₁.toList = p₂.toList ++ r₂.toList := by
    have := congrArg String.toList h
    simpa [String.toList_append] using this
  rcases List.append_eq_append_iff.mp hl with ⟨a, h1, _⟩ | ⟨a, h1, _⟩
  · exact Or.inl ⟨String.ofList a, by apply String.ext; simp [String.toList_append, h1]⟩
  · exact Or.inr ⟨String.ofList a, by apply String.ext; simp [String.toList_append, h1]⟩

/-- tracers whose identifier prefixes are prefix-free define disjoint sets of external symbols -/
theorem prefixfree_disjoint (o₁ o₂ : GenOpts) (c₁ c₂ : Cfg)
    (h₁ : ¬ ∃ t, o₂.identPrefix = o₁.identPrefix ++ t) (h₂ : ¬ ∃ t, o₁.identPrefix = o₂.identPrefix ++ t) :
    ∀ s, s ∈ symbolsOf o₁ c₁ → s ∉ symbolsOf o₂ c₂ := by
  intro s hs hs'
  obtain ⟨r₁, e₁⟩ := symbols_prefixed o₁ c₁ s hs
  obtain ⟨r₂, e₂⟩ := symbols_prefixed o₂ c₂ s hs'
  rcases prefix_of_common _ _ r₁ r₂ (e₁.symm.trans e₂) with h | h
  · exact h₁ h
  · exact h₂ h

/-- each `trace_<event>` shorthand macro of the default data stream type expands to that stream's
    tracing function -/
theorem shorthand_resolves (o : GenOpts) (c : Cfg) (dn : String) (d : DST)
    (hd : o.defaultDst = some dn) (hf : c.dsts.find? (fun x => x.name == dn) = some d) :
    shorthandMacros o c = d.erts.map fun e =>
      (o.identPrefix ++ "trace_" ++ e.name, o.identPrefix ++ d.name ++ "_trace_" ++ e.name) := by
  unfold shorthandMacros
  simp [hd, hf]

/-- the expansion of a shorthand macro is an external symbol of the tracer -/
theorem shorthand_target_defined (o : GenOpts) (c : Cfg) (dn : String) (d : DST)
    (hd : o.defaultDst = some dn) (hf : c.dsts.find? (fun x => x.name == dn) = some d) :
    ∀ m ∈ shorthandMacros o c, m.2 ∈ symbolsOf o c := by
  intro m hm
  rw [shorthand_resolves o c dn d hd hf] at hm
  obtain ⟨e, he, rfl⟩ := List.mem_map.mp hm
  unfold symbolsOf
  apply List.mem_append.mpr
  right
  apply List.mem_flatten.mpr
  refine ⟨dstSymbols o.identPrefix d, List.mem_map.mpr ⟨d, List.mem_of_find?_eq_some hf, rfl⟩, ?_⟩
  unfold dstSymbols
  apply List.mem_append.mpr
  right
  exact List.mem_map.mpr ⟨e, he, rfl⟩

/-! "different" is not enough: `a_` and `a_b_` with suitably named stream types collide -/
def oA : GenOpts := { identPrefix := "a_" }
def oB : GenOpts := { identPrefix := "a_b_" }
def mkCfg (dst ert : String) : Cfg :=
  { bo := .le, fast := true, uuid := [], feat := ⟨none, false, none⟩,
    dsts := [{ name := dst, id := 0, clock := none,
               feat := { totalSize := .int false 64 8, contentSize := .int false 64 8, tsBegin := none, tsEnd := none,
                         discarded := none, seqNum := none, ertId := none, erTs := none },
               pcExtra := [], ercc := none, erts := [{ name := ert, id := 0, sc := none, p := none }] }] }

theorem prefix_overlap_possible :
    ∃ s, s ∈ symbolsOf oA (mkCfg "b_x" "e") ∧ s ∈ symbolsOf oB (mkCfg "x" "e") :=
  ⟨"a_b_x_trace_e", by decide, by decide⟩

#print axioms symbols_prefixed
#print axioms files_prefixed
#print axioms cli_prefix_override
#print axioms prefix_of_common
#print axioms prefixfree_disjoint
#print axioms shorthand_resolves
#print axioms shorthand_target_defined
#print axioms prefix_overlap_possible
end BVM
