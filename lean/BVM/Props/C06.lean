/-
  Props/C06.lean — property C06: packet life cycle and truthful accessors.

  Proved here over the runtime model (all configurations, histories, platform scripts, buffers):
    * is_open_follows_open_close — the is-open accessor is true exactly when the newest
      opening/closing that *took effect* (ghost events `opened`/`closed`) is an opening;
    * discarded_accessor_exact / sequence_accessor_exact — the two counters equal the numbers of
      discarded records and closed packets (mod 2^32; the sequence number stays 0 when the feature is
      off, as api.adoc says);
    * open_on_open_is_noop / close_on_closed_is_noop — opening an open packet or closing a closed one
      changes nothing but the in-section flag round trip (buffer, position, counters, log of stores).
    * open_packet_position / is_empty_iff_at_content_start — for platforms whose packet buffers all have
      one size: after any history the packet size is the buffer size, `at` is inside the packet, while a
      packet is open `off_content ≤ at` (is-empty ⇔ nothing written after the packet context), and the
      saved content size is at most the packet size (position invariant `PInv`, Proofs/RtPos.lean).
  `protocol_invariants_partial` / `finalise_flushes_partial` (DESIGN.md): the clauses "open callback
  only when no packet is open and after a not-full answer", "close callback only on an open packet"
  and the finalisation idiom additionally need "closed ⇒ at = packetSize", which is false in the
  corners recorded as findings (F9: platform calls ignored while tracing is disabled; tracing calls
  before the first opening).  They are checked on the implementation by the oracle of the check and
  compared with the model event by event.
-/
import BVM.Proofs.RtCount
import BVM.Proofs.CfgOKb
import BVM.Proofs.RtPosB
namespace BVM

theorem is_open_follows_open_close (cfg : Cfg) (d : DST) (ops : List Op) (bytes : Nat) (p : Plat) :
    (runOps cfg d ops (rtInit bytes p)).c.packetIsOpen = lastOpen (runOps cfg d ops (rtInit bytes p)).log :=
  (runOps_inv cfg d ops _ (rtInit_inv d bytes p)).isOpen

theorem discarded_accessor_exact (cfg : Cfg) (d : DST) (ops : List Op) (bytes : Nat) (p : Plat) :
    (runOps cfg d ops (rtInit bytes p)).c.eventsDiscarded =
      nDisc (runOps cfg d ops (rtInit bytes p)).log % 4294967296 :=
  (runOps_inv cfg d ops _ (rtInit_inv d bytes p)).disc

theorem sequence_accessor_exact (cfg : Cfg) (d : DST) (ops : List Op) (bytes : Nat) (p : Plat) :
    (runOps cfg d ops (rtInit bytes p)).c.sequenceNumber =
      (if d.feat.seqNum.isSome then nClosed (runOps cfg d ops (rtInit bytes p)).log % 4294967296 else 0) :=
  (runOps_inv cfg d ops _ (rtInit_inv d bytes p)).seq

/-- opening an open packet is a no-op (after the preamble's clock sample): nothing changes -/
theorem open_on_open_is_noop (cfg : Cfg) (d : DST) (args : Args) (ts : Nat) (s : St)
    (ho : s.c.packetIsOpen = true) (he : s.c.isTracingEnabled = true ∨ s.c.inTracingSection = true) :
    openGuarded cfg d args ts s = s := by
  unfold openGuarded
  have hg : (!s.c.isTracingEnabled && !s.c.inTracingSection) = false := by
    rcases he with h | h <;> simp [h]
  simp only [hg, Bool.false_eq_true, if_false, St.setFlag_c_packetIsOpen, ho, if_true]
  cases s; rfl

/-- closing a closed packet is a no-op (after the preamble's clock sample): nothing changes -/
theorem close_on_closed_is_noop (cfg : Cfg) (d : DST) (ts : Nat) (s : St)
    (ho : s.c.packetIsOpen = false) (he : s.c.isTracingEnabled = true ∨ s.c.inTracingSection = true) :
    closeGuarded cfg d ts s = s := by
  unfold closeGuarded
  have hg : (!s.c.isTracingEnabled && !s.c.inTracingSection) = false := by
    rcases he with h | h <;> simp [h]
  simp only [hg, Bool.false_eq_true, if_false, St.setFlag_c_packetIsOpen, ho, Bool.not_false, if_true]
  cases s; rfl

/-- **position clauses of the life cycle** (platforms whose packet buffers all have one size `L`; hypotheses as in
    `no_store_outside_the_buffer`, Props/C02.lean): after any history — any order of calls, any toggles inside
    callbacks, any back-end answers — the packet size is the buffer size, the write position is inside the packet, while
    a packet is open the position is at or after the beginning of the packet content (so `is_empty` ⇔ `at = off_content`),
    and the content size saved by the last closing is at most the packet size -/
theorem open_packet_position (cfg : Cfg) (d : DST) (L A : Nat) (hcfg : CfgOK A cfg d)
    (hsmall : 8 * L + A ≤ 2 ^ 32) (p : Plat) (hsb : ∀ x ∈ p.setBufs, x.2 = L)
    (hhdr : ∀ args ∈ openArgsOf p.openArgs, hdrEndN cfg d args ≤ 8 * L)
    (ops : List Op) (hops : OpsSmall d L A ops) :
    (runOps cfg d ops (rtInit L p)).c.packetSize = 8 * L ∧
    (runOps cfg d ops (rtInit L p)).c.at_ ≤ (runOps cfg d ops (rtInit L p)).c.packetSize ∧
    ((runOps cfg d ops (rtInit L p)).c.packetIsOpen = true →
      (runOps cfg d ops (rtInit L p)).c.offContent ≤ (runOps cfg d ops (rtInit L p)).c.at_) ∧
    (runOps cfg d ops (rtInit L p)).c.contentSize ≤ (runOps cfg d ops (rtInit L p)).c.packetSize := by
  have h := runOps_pinv cfg d L A p.openArgs hcfg hsmall hhdr ops hops (rtInit L p)
    (rtInit_pinv d L A hcfg.Apos hsmall p hsb)
  exact ⟨h.pkt, by rw [h.pkt]; exact h.at_, h.oc, by rw [h.pkt]; exact h.cz⟩

/-- while a packet is open, the is-empty accessor says exactly "nothing was written after the packet context" -/
theorem is_empty_iff_at_content_start (cfg : Cfg) (d : DST) (L A : Nat) (hcfg : CfgOK A cfg d)
    (hsmall : 8 * L + A ≤ 2 ^ 32) (p : Plat) (hsb : ∀ x ∈ p.setBufs, x.2 = L)
    (hhdr : ∀ args ∈ openArgsOf p.openArgs, hdrEndN cfg d args ≤ 8 * L)
    (ops : List Op) (hops : OpsSmall d L A ops)
    (ho : (runOps cfg d ops (rtInit L p)).c.packetIsOpen = true) :
    (runOps cfg d ops (rtInit L p)).c.isEmpty = true ↔
      (runOps cfg d ops (rtInit L p)).c.at_ = (runOps cfg d ops (rtInit L p)).c.offContent := by
  have h := (open_packet_position cfg d L A hcfg hsmall p hsb hhdr ops hops).2.2.1 ho
  simp only [Ctx.isEmpty, decide_eq_true_eq]
  omega

/-- the same clauses for platforms that install buffers of different sizes (`barectf_packet_set_buf`), for histories
    that start by opening a packet and never disable tracing (hypotheses of `no_store_outside_the_buffer_any_sizes`,
    Props/C02.lean) — and there also the converse clause: **a closed packet is parked at its end** (`at = packet_size`),
    so the is-full accessor is true and the next tracing call asks the back end and has a new packet opened -/
theorem closed_packet_is_parked_at_the_end (cfg : Cfg) (d : DST) (A Lmax : Nat) (hcfg : CfgOK A cfg d)
    (hsmall : 8 * Lmax + A ≤ 2 ^ 32) (L : Nat) (p : Plat) (hL : GoodBuf cfg d A Lmax p.openArgs L)
    (htg : p.toggles = []) (hsb : ∀ x ∈ p.setBufs, GoodBuf cfg d A Lmax p.openArgs x.2)
    (ops : List Op) (hops : OpsSmall d Lmax A ops) (hen : NeverDisabled ops)
    (hc : (runOps cfg d (.open_ :: ops) (rtInit L p)).c.packetIsOpen = false) :
    (runOps cfg d (.open_ :: ops) (rtInit L p)).c.isFull = true := by
  have h := runOps_from_init cfg d A Lmax hcfg hsmall L p hL htg hsb ops hops hen
  have h1 := h.cl rfl hc
  simp only [Ctx.isFull, beq_iff_eq]
  rw [h1, h.pkt]

#print axioms is_open_follows_open_close
#print axioms discarded_accessor_exact
#print axioms sequence_accessor_exact
#print axioms open_on_open_is_noop
#print axioms close_on_closed_is_noop
#print axioms open_packet_position
#print axioms is_empty_iff_at_content_start
#print axioms closed_packet_is_parked_at_the_end
end BVM
