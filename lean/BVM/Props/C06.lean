/-
  Props/C06.lean — property C06: packet life cycle and truthful accessors.

  Proved here over the runtime model (all configurations, histories, platform scripts, buffers):
    * is_open_follows_open_close — the is-open accessor is true exactly when the newest
      opening/closing that *took effect* (ghost events `opened`/`closed`) is an opening;
    * discarded_accessor_exact / sequence_accessor_exact — the two counters equal the numbers of
      discarded records and closed packets (mod 2^32; the sequence number stays 0 when the feature is
      off, as api.adoc says);
    * open_on_open_is_noop / close_on_closed_is_noop — opening an open packet or closing a closed one
      changes nothing but the in-section flag round trip (buffer, position, counters, log of stores).
  `protocol_invariants_partial` / `finalise_flushes_partial` (DESIGN.md): the clauses "open callback
  only when no packet is open and after a not-full answer", "close callback only on an open packet",
  "is-empty holds exactly until the first record" and the finalisation idiom need the position
  invariant (open ⇒ offContent ≤ at ≤ packetSize; closed ⇒ at = packetSize) which is false in the
  corners recorded as findings (F9: platform calls ignored while tracing is disabled; degenerate
  buffers of exactly header size with zero-size records).  They are checked on the implementation by
  the oracle of the check and compared with the model event by event.
-/
import BVM.Proofs.RtCount
namespace BVM

theorem is_open_follows_open_close (cfg : Cfg) (d : DST) (ops : List Op) (bytes : Nat) (p : Plat) :
    (runOps cfg d ops (rtInit bytes p)).c.packetIsOpen = lastOpen (runOps cfg d ops (rtInit bytes p)).log :=
  (runOps_inv cfg d ops _ (rtInit_inv d bytes p)).isOpen

theorem discarded_accessor_exact (cfg : Cfg) (d : DST) (ops : List Op) (bytes : Nat) (p : Plat) :
    (runOps cfg d ops (rtInit bytes p)).c.eventsDiscarded =
      nDisc (runOps cfg d ops (rtInit bytes p)).log % 4294967296 :=
  (runOps_inv cfg d ops _ (rtInit_inv d bytes p)).disc

theorem sequence_accessor_exact (cfg : Cfg) (d : DST) (ops : List Op) (bytes : Nat) (p : Plat) :
    (runOps cfg d ops (rtInit bytes p)).c.sequenceNumber =
      (if d.feat.seqNum.isSome then nClosed (runOps cfg d ops (rtInit bytes p)).log % 4294967296 else 0) :=
  (runOps_inv cfg d ops _ (rtInit_inv d bytes p)).seq

/-- opening an open packet is a no-op (after the preamble's clock sample): nothing changes -/
theorem open_on_open_is_noop (cfg : Cfg) (d : DST) (args : Args) (ts : Nat) (s : St)
    (ho : s.c.packetIsOpen = true) (he : s.c.isTracingEnabled = true ∨ s.c.inTracingSection = true) :
    openGuarded cfg d args ts s = s := by
  unfold openGuarded
  have hg : (!s.c.isTracingEnabled && !s.c.inTracingSection) = false := by
    rcases he with h | h <;> simp [h]
  simp only [hg, Bool.false_eq_true, if_false, St.setFlag_c_packetIsOpen, ho, if_true]
  cases s; rfl

/-- closing a closed packet is a no-op (after the preamble's clock sample): nothing changes -/
theorem close_on_closed_is_noop (cfg : Cfg) (d : DST) (ts : Nat) (s : St)
    (ho : s.c.packetIsOpen = false) (he : s.c.isTracingEnabled = true ∨ s.c.inTracingSection = true) :
    closeGuarded cfg d ts s = s := by
  unfold closeGuarded
  have hg : (!s.c.isTracingEnabled && !s.c.inTracingSection) = false := by
    rcases he with h | h <;> simp [h]
  simp only [hg, Bool.false_eq_true, if_false, St.setFlag_c_packetIsOpen, ho, Bool.not_false, if_true]
  cases s; rfl

#print axioms is_open_follows_open_close
#print axioms discarded_accessor_exact
#print axioms sequence_accessor_exact
#print axioms open_on_open_is_noop
#print axioms close_on_closed_is_noop
end BVM
