import BVM.Proofs.Bits
namespace BVM
theorem c02_placeholder : True := trivial
#print axioms c02_placeholder
end BVM
