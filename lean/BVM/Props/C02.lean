/-
  Props/C02.lean — property C02: the tracer never touches memory outside the current packet buffer.

  Proved here (all configurations, values, buffers, offsets):
    * stores_are_logged_truthfully — each serialisation primitive (bit-array write through the
      bit-field macro or the memcpy fast path; C string write) logs exactly one store `(first byte,
      byte count)` and modifies no byte outside that range; the macro's range is exactly the bytes
      that overlap the field (C08 `bf_touch`);
    * oob_store_is_detected — a store whose range exceeds the buffer raises `oob` and leaves the
      buffer unchanged (the model halts there, as the guard page does on the implementation);
    * record_checked_before_write — after `_reserve_er_space` the tracing function serialises a
      record only if its size *computed at the offset where it will be written* fits the remaining
      packet (`sizeAfterReserve … ≤ room`); otherwise it is counted as discarded.  (This is the check
      whose absence was finding F8, repaired in /repo.)
    * no_undefined_shift — no shift of the bit-field macros has an amount ≥ its operand width.
  `stores_in_bounds_partial` (DESIGN.md): the global statement "no history logs an out-of-bounds
  store" additionally needs (i) `size_eq_advance` / `ser_stores_within` for whole operation trees
  (the serialise pass advances exactly by the size pass and stores only inside that span), (ii) the
  position invariant `open → at ≤ packetSize = 8·bufBytes`, (iii) header+context ≤ buffer (property
  precondition) and no 2^32 wrap.  Those are not proved yet; on the implementation the property is
  decided by the guard page (byte-granular), the C assertion and sanitizers on every history run.
-/
import BVM.Proofs.SerFrame
import BVM.Proofs.RtSimp
namespace BVM

theorem stores_are_logged_truthfully (env : SerEnv) (sc : Scalar) (oib : Option Nat) (v : Int) (s : SerSt) :
    ∃ b n, (writeBits env sc oib v s).stores = (b, n) :: s.stores ∧
      ∀ k, (k < b ∨ b + n ≤ k) → getB (writeBits env sc oib v s).buf k = getB s.buf k :=
  writeBits_frame env sc oib v s

theorem string_store_logged_truthfully (bytes : List Nat) (s : SerSt) :
    (writeStr bytes s).stores = (s.at_ / 8, bytes.length + 1) :: s.stores ∧
    ∀ k, (k < s.at_ / 8 ∨ s.at_ / 8 + (bytes.length + 1) ≤ k) → getB (writeStr bytes s).buf k = getB s.buf k :=
  writeStr_frame bytes s

theorem oob_store_is_detected (s : SerSt) (b n : Nat) (nb : Buf) (h : ¬ b + n ≤ s.buf.length) :
    (s.store b n nb).oob = true ∧ (s.store b n nb).buf = s.buf :=
  store_oob s b n nb h

/-- a serialisation pass that raised `oob` halts the run and logs it -/
theorem oob_halts (r : SerSt) (s : St) (h : r.oob = true) :
    (installSer r s).halted = true ∧ Ev.oob ∈ (installSer r s).log := by
  unfold installSer
  simp [h]

theorem record_checked_before_write (cfg : Cfg) (d : DST) (e : ERT) (args : Args) (erAt erSize : Nat) (r : Bool × St)
    (hh : r.2.halted = false) (hok : r.1 = true)
    (hfit : ¬ sizeAfterReserve d e args erAt erSize r.2 ≤ r.2.c.room r.2.c.at_) :
    traceAfterReserve cfg d e args erAt erSize r = (noSpace true r.2).2.setFlag false := by
  unfold traceAfterReserve
  have : sizeAfterReserve d e args erAt erSize r.2 > r.2.c.room r.2.c.at_ := by omega
  simp [hh, hok, this]

theorem no_undefined_shift (isLE : Bool) (W start len : Nat) (hW : 2 ≤ W) :
    ∀ p ∈ bfShifts isLE W start len, p.2 < p.1 :=
  bfShifts_ok isLE W start len hW

/-! Non-vacuity -/
example : (({ buf := [0, 0], at_ := 8, saved := [], stores := [], oob := false, leaves := [] } : SerSt).store 1 2 [0, 1, 2]).oob = true := by
  decide

#print axioms stores_are_logged_truthfully
#print axioms string_store_logged_truthfully
#print axioms oob_store_is_detected
#print axioms oob_halts
#print axioms record_checked_before_write
#print axioms no_undefined_shift
end BVM
