/-
  Props/C02.lean — property C02: the tracer never touches memory outside the current packet buffer.

  Proved here (all configurations, values, buffers, offsets):
    * stores_are_logged_truthfully — each serialisation primitive (bit-array write through the
      bit-field macro or the memcpy fast path; C string write) logs exactly one store `(first byte,
      byte count)` and modifies no byte outside that range; the macro's range is exactly the bytes
      that overlap the field (C08 `bf_touch`);
    * oob_store_is_detected — a store whose range exceeds the buffer raises `oob` and leaves the
      buffer unchanged (the model halts there, as the guard page does on the implementation);
    * record_checked_before_write — after `_reserve_er_space` the tracing function serialises a
      record only if its size *computed at the offset where it will be written* fits the remaining
      packet (`sizeAfterReserve … ≤ room`); otherwise it is counted as discarded.  (This is the check
      whose absence was finding F8, repaired in /repo.)
    * no_undefined_shift — no shift of the bit-field macros has an amount ≥ its operand width.
    * size_pass_is_serialise_advance — for every user root structure (contexts, payload) the `_er_size_*` pass
      and the `_serialize_er_*` pass of the tree `_OpBuilder` builds end at the same `at` (both in `uint32_t`
      arithmetic; no hypothesis on values or positions);
    * record_within_reserved_space — if that size pass says the structure ends inside the buffer and its true
      (unbounded) end does not wrap `uint32_t`, serialising it performs **no store outside the buffer** and ends
      exactly at the computed position (`fits_implies_in_bounds`, `size_pass_exact`: Proofs/SizeSer.lean).
    * **no_store_outside_the_buffer** — the global statement: from `barectf_init`, after any sequence of API calls
      against any platform script whose packet buffers all have one size, no store is outside the buffer (the run has
      not halted), `packet_size` is the buffer size and `at` is inside the packet (position invariant `PInv`,
      Proofs/RtPos.lean; the saved offsets of the written-back fields, Proofs/Saved.lean).  Hypotheses: `CfgOK`
      (executable as `cfgOKb`, evaluated by the check on every real configuration it uses), the property's own
      precondition (buffer ≥ header + context), and the `uint32_t` no-wrap conditions.
    * **every_store_inside_the_buffer** — the same as a statement about the logged stores themselves: every
      `store off n` event of every history has `off + n ≤ L`.
    * **no_store_outside_the_buffer_any_sizes** — the same for platforms that install buffers of *different* sizes, for
      histories that start by opening a packet and never disable tracing (Proofs/RtPosB.lean).
  Not proved, because false on the current tree: buffers of different sizes together with disabled tracing (a closing
  the tracer ignores, then a swap to a smaller buffer, leaves `at` beyond the packet — finding F9) or with tracing calls
  before the first opening (misuse); packets of 512 MiB and more (candidate finding F11).  On the
  implementation the property is decided on every history by the guard page (byte-granular), the C assertion and
  sanitizers.
-/
import BVM.Proofs.SerFrame
import BVM.Proofs.RtSimp
import BVM.Proofs.SizeSer
import BVM.Proofs.RecordBounds
import BVM.Proofs.CfgOKb
import BVM.Proofs.RtPosB
namespace BVM

theorem stores_are_logged_truthfully (env : SerEnv) (sc : Scalar) (oib : Option Nat) (v : Int) (s : SerSt) :
    ∃ b n, (writeBits env sc oib v s).stores = (b, n) :: s.stores ∧
      ∀ k, (k < b ∨ b + n ≤ k) → getB (writeBits env sc oib v s).buf k = getB s.buf k :=
  writeBits_frame env sc oib v s

theorem string_store_logged_truthfully (bytes : List Nat) (s : SerSt) :
    (writeStr bytes s).stores = (s.at_ / 8, bytes.length + 1) :: s.stores ∧
    ∀ k, (k < s.at_ / 8 ∨ s.at_ / 8 + (bytes.length + 1) ≤ k) → getB (writeStr bytes s).buf k = getB s.buf k :=
  writeStr_frame bytes s

theorem oob_store_is_detected (s : SerSt) (b n : Nat) (nb : Buf) (h : ¬ b + n ≤ s.buf.length) :
    (s.store b n nb).oob = true ∧ (s.store b n nb).buf = s.buf :=
  store_oob s b n nb h

/-- a serialisation pass that raised `oob` halts the run and logs it -/
theorem oob_halts (r : SerSt) (s : St) (h : r.oob = true) :
    (installSer r s).halted = true ∧ Ev.oob ∈ (installSer r s).log := by
  unfold installSer
  simp [h]

theorem record_checked_before_write (cfg : Cfg) (d : DST) (e : ERT) (args : Args) (erAt erSize : Nat) (r : Bool × St)
    (hh : r.2.halted = false) (hok : r.1 = true)
    (hfit : ¬ sizeAfterReserve d e args erAt erSize r.2 ≤ r.2.c.room r.2.c.at_) :
    traceAfterReserve cfg d e args erAt erSize r = (noSpace true r.2).2.setFlag false := by
  unfold traceAfterReserve
  have : sizeAfterReserve d e args erAt erSize r.2 > r.2.c.room r.2.c.at_ := by omega
  simp [hh, hok, this]

theorem no_undefined_shift (isLE : Bool) (W start len : Nat) (hW : 2 ≤ W) :
    ∀ p ∈ bfShifts isLE W start len, p.2 < p.1 :=
  bfShifts_ok isLE W start len hW

/-- `_er_size_*` and `_serialize_er_*` end at the same position, whatever the values and the starting state -/
theorem size_pass_is_serialise_advance (env : SerEnv) (pfx : String) (args : Args) (S : Struct) (hS : RootOK S) (s : SerSt) :
    sizeRoot pfx (buildRoot specNone S) args s.at_ = (serRoot env pfx (buildRoot specNone S) args s).at_ :=
  size_eq_ser env pfx args S hS s

/-- a structure whose true end (`structEndN`: unbounded arithmetic, what a reader computes) is inside the buffer is
    serialised without any store outside the buffer -/
theorem fits_implies_in_bounds (env : SerEnv) (pfx : String) (args : Args) (S : Struct) (hS : RootOK S) (s : SerSt) (L : Nat)
    (hsmall : 8 * L + S.align ≤ 2 ^ 32) (hlen : s.buf.length = L) (h0 : s.oob = false)
    (hfit : structEndN pfx args S s.at_ ≤ 8 * L) :
    (serRoot env pfx (buildRoot specNone S) args s).oob = false ∧
    (serRoot env pfx (buildRoot specNone S) args s).at_ = structEndN pfx args S s.at_ :=
  struct_in_bounds env pfx args S hS s L hsmall hlen h0 hfit

/-- while the true end does not wrap `uint32_t`, the size pass computes it exactly -/
theorem size_pass_exact (pfx : String) (args : Args) (S : Struct) (hS : RootOK S) (a : Nat)
    (h : structEndN pfx args S a + S.align + 8 ≤ 2 ^ 32) :
    sizeRoot pfx (buildRoot specNone S) args a = structEndN pfx args S a := size_exact pfx args S hS a h

/-- **the check the tracer makes is the right one**: if the generated size pass says the structure ends inside the
    buffer (and the true end does not wrap), the generated serialisation stores nothing outside the buffer -/
theorem record_within_reserved_space (env : SerEnv) (pfx : String) (args : Args) (S : Struct) (hS : RootOK S) (s : SerSt)
    (L : Nat) (hsmall : 8 * L + S.align ≤ 2 ^ 32) (hlen : s.buf.length = L) (h0 : s.oob = false)
    (hnw : structEndN pfx args S s.at_ + S.align + 8 ≤ 2 ^ 32)
    (hfit : sizeRoot pfx (buildRoot specNone S) args s.at_ ≤ 8 * L) :
    (serRoot env pfx (buildRoot specNone S) args s).oob = false := by
  rw [size_exact pfx args S hS s.at_ hnw] at hfit
  exact (struct_in_bounds env pfx args S hS s L hsmall hlen h0 hfit).1

/-- every root structure — packet header (magic, UUID, stream id), packet context (with the fields written back at
    closing skipped), event record header, contexts, payload — whose true end is inside the buffer is serialised
    without any store outside the buffer -/
theorem any_root_fits_implies_in_bounds (env : SerEnv) (spec : String → Option WSrc) (pfx : String) (args : Args) (S : Struct)
    (hS : RootOKS spec S) (s : SerSt) (L : Nat) (hsmall : 8 * L + S.align ≤ 2 ^ 32) (hlen : s.buf.length = L)
    (h0 : s.oob = false) (hfit : structEndS spec pfx args S s.at_ ≤ 8 * L) :
    (serRoot env pfx (buildRoot spec S) args s).oob = false ∧
    (serRoot env pfx (buildRoot spec S) args s).at_ = structEndS spec pfx args S s.at_ ∧
    (serRoot env pfx (buildRoot spec S) args s).buf.length = L :=
  root_in_bounds env spec pfx args S hS s L hsmall hlen h0 hfit

/-- `_er_size_<dst>_<ert>` (header + common context + specific context + payload, `uint32_t` arithmetic) is the
    distance `_serialize_er_<dst>_<ert>` advances, for every record type, arguments and position -/
theorem er_size_is_er_serialise_advance (env : SerEnv) (A : Nat) (d : DST) (e : ERT) (hok : RecordOK A d e) (args : Args)
    (s : SerSt) : erSizeAt d e args s.at_ = subU32 (serRecord env d e args s).at_ s.at_ :=
  erSizeAt_eq_ser env A d e hok args s

/-- **a tracing call writes its record inside the packet**: in the tracing function, once `_reserve_er_space` has
    returned 1 and the post-reservation check has found `er_size ≤ packet_size - at` (the check added by the repair of
    finding F8), the record is serialised with no store outside the buffer and `at` stays within the packet — provided
    the packet size is the buffer size, `at` is inside the packet (`PosOK`: the position invariant, assumed here, not
    yet proved along histories) and the record's true end does not wrap `uint32_t` -/
theorem tracing_call_writes_inside_the_packet (cfg : Cfg) (A : Nat) (d : DST) (e : ERT) (hok : RecordOK A d e) (args : Args)
    (erAt : Nat) (r : Bool × St) (hp : PosOK A r.2) (hr : r.1 = true)
    (hnw : recordEndN d e args r.2.c.at_ + A + 8 ≤ 2 ^ 32)
    (hfit : ¬ sizeAfterReserve d e args erAt (erSizeAt d e args erAt) r.2 > r.2.c.room r.2.c.at_) :
    traceAfterReserve cfg d e args erAt (erSizeAt d e args erAt) r = traceWrite cfg d e args r.2 ∧
    (runSer (serRecord (serEnvOf cfg d e.id r.2.c.curLastEventTs r.2.c) d e args) r.2).halted = false ∧
    (runSer (serRecord (serEnvOf cfg d e.id r.2.c.curLastEventTs r.2.c) d e args) r.2).c.at_ ≤ r.2.c.packetSize := by
  have hsz : sizeAfterReserve d e args erAt (erSizeAt d e args erAt) r.2 = erSizeAt d e args r.2.c.at_ := by
    unfold sizeAfterReserve
    by_cases h : r.2.c.at_ = erAt
    · simp [h]
    · simp [h]
  rw [hsz] at hfit
  have hw := traceWrite_ser_in_bounds cfg A d e hok args r.2 hp hnw (by omega)
  refine ⟨?_, hw.1, ?_⟩
  · unfold traceAfterReserve
    simp only [hp.notHalted, hr, hsz, Bool.false_eq_true, if_false, Bool.not_true]
    rw [if_neg hfit]
  · have := hw.2.1
    rw [hw.2.2.2] at this
    exact this

/-- **no history of the tracer stores outside the packet buffer** (the global statement of C02, for platforms whose
    packet buffers all have the same size `L`): from `barectf_init` on a buffer of `L` bytes, after *any* sequence of API
    calls (open, close, tracing calls, enable/disable, finalisation — in any order, misuse included) against *any*
    platform script (back-end answers, clock, toggles of `is_tracing_enabled` inside any callback, buffer swaps to other
    buffers of `L` bytes), the run has not halted — the model halts exactly on a store outside the buffer
    (`oob_store_is_detected`, `oob_halts`) — the packet size is the buffer size and `at` is inside the packet.
    Hypotheses: `CfgOK` (what the front end guarantees: power-of-two alignments bounded by `A`, distinct member names in
    the packet context; executable as `cfgOKb`, evaluated on real configurations by the check), the property's
    precondition (the buffer holds packet header + context for every argument list the open callback passes) and the
    `uint32_t` no-wrap conditions (buffer below 512 MiB, records whose true size does not wrap). -/
theorem no_store_outside_the_buffer (cfg : Cfg) (d : DST) (L A : Nat) (hcfg : CfgOK A cfg d)
    (hsmall : 8 * L + A ≤ 2 ^ 32) (p : Plat) (hsb : ∀ x ∈ p.setBufs, x.2 = L)
    (hhdr : ∀ args ∈ openArgsOf p.openArgs, hdrEndN cfg d args ≤ 8 * L)
    (ops : List Op) (hops : OpsSmall d L A ops) :
    (runOps cfg d ops (rtInit L p)).halted = false ∧
    (runOps cfg d ops (rtInit L p)).buf.length = L ∧
    (runOps cfg d ops (rtInit L p)).c.packetSize = 8 * L ∧
    (runOps cfg d ops (rtInit L p)).c.at_ ≤ 8 * L := by
  have h := runOps_pinv cfg d L A p.openArgs hcfg hsmall hhdr ops hops (rtInit L p)
    (rtInit_pinv d L A hcfg.Apos hsmall p hsb)
  exact ⟨h.nh, h.len, h.pkt, h.at_⟩

/-- **the literal statement of C02**: every store the tracer makes — every `store off n` event of the log, i.e. every
    byte range any serialisation primitive modified (`stores_are_logged_truthfully`) — lies inside the packet buffer
    (`off + n ≤ L` bytes), along every history; same hypotheses as `no_store_outside_the_buffer`.
    (`installSer` logs the stores of a pass; each was checked against the buffer length when it was made, the buffer keeps
    its length, and no pass raised `oob`: Proofs/StoresIn.lean.) -/
theorem every_store_inside_the_buffer (cfg : Cfg) (d : DST) (L A : Nat) (hcfg : CfgOK A cfg d)
    (hsmall : 8 * L + A ≤ 2 ^ 32) (p : Plat) (hsb : ∀ x ∈ p.setBufs, x.2 = L)
    (hhdr : ∀ args ∈ openArgsOf p.openArgs, hdrEndN cfg d args ≤ 8 * L)
    (ops : List Op) (hops : OpsSmall d L A ops) (off n : Nat) (flag isOpen : Bool)
    (h : Ev.store off n flag isOpen ∈ (runOps cfg d ops (rtInit L p)).log) : off + n ≤ L :=
  (runOps_pinv cfg d L A p.openArgs hcfg hsmall hhdr ops hops (rtInit L p)
    (rtInit_pinv d L A hcfg.Apos hsmall p hsb)).stin _ h

/-- the same with the configuration hypotheses in executable form (what the driver evaluates on real configurations) -/
theorem no_store_outside_the_buffer_exec (cfg : Cfg) (d : DST) (L A : Nat) (hcfg : cfgOKb A cfg d = true)
    (hsmall : 8 * L + A ≤ 2 ^ 32) (p : Plat) (hsb : ∀ x ∈ p.setBufs, x.2 = L)
    (hhdr : hdrFitsb cfg d L p.openArgs = true) (ops : List Op) (hops : OpsSmall d L A ops) :
    (runOps cfg d ops (rtInit L p)).halted = false :=
  (no_store_outside_the_buffer cfg d L A (cfgOKb_sound A cfg d hcfg) hsmall p hsb
    (hdrFitsb_sound cfg d L p.openArgs hhdr) ops hops).1

/-- **the same for platforms that install buffers of different sizes** (`barectf_packet_set_buf` from the close
    callback): every buffer — the initial one and each one installed later — is at most `Lmax` bytes and holds packet
    header + context (`GoodBuf`: the property's precondition); the history starts by opening a packet (what every
    documented platform does in its initialisation) and never disables tracing, and no callback toggles
    `is_tracing_enabled`.  Then no store is outside the current buffer, the packet size is the current buffer's size,
    `at` is inside the packet, an open packet has `off_content ≤ at`, and a closed packet has `at = packet_size` (so the
    next tracing call sees a full packet, asks the back end and opens a new one).
    The two restrictions are where the statement is false on the current tree: a closing ignored because tracing is
    disabled followed by a swap to a smaller buffer (finding F9); a tracing call before any opening followed by a swap. -/
theorem no_store_outside_the_buffer_any_sizes (cfg : Cfg) (d : DST) (A Lmax : Nat) (hcfg : CfgOK A cfg d)
    (hsmall : 8 * Lmax + A ≤ 2 ^ 32) (L : Nat) (p : Plat) (hL : GoodBuf cfg d A Lmax p.openArgs L)
    (htg : p.toggles = []) (hsb : ∀ x ∈ p.setBufs, GoodBuf cfg d A Lmax p.openArgs x.2)
    (ops : List Op) (hops : OpsSmall d Lmax A ops) (hen : NeverDisabled ops) :
    (runOps cfg d (.open_ :: ops) (rtInit L p)).halted = false ∧
    (runOps cfg d (.open_ :: ops) (rtInit L p)).c.packetSize = 8 * (runOps cfg d (.open_ :: ops) (rtInit L p)).buf.length ∧
    (runOps cfg d (.open_ :: ops) (rtInit L p)).c.at_ ≤ (runOps cfg d (.open_ :: ops) (rtInit L p)).c.packetSize ∧
    ((runOps cfg d (.open_ :: ops) (rtInit L p)).c.packetIsOpen = true →
      (runOps cfg d (.open_ :: ops) (rtInit L p)).c.offContent ≤ (runOps cfg d (.open_ :: ops) (rtInit L p)).c.at_) ∧
    ((runOps cfg d (.open_ :: ops) (rtInit L p)).c.packetIsOpen = false →
      (runOps cfg d (.open_ :: ops) (rtInit L p)).c.at_ = (runOps cfg d (.open_ :: ops) (rtInit L p)).c.packetSize) := by
  have h := runOps_from_init cfg d A Lmax hcfg hsmall L p hL htg hsb ops hops hen
  exact ⟨h.nh, h.pkt, by rw [h.pkt]; exact h.at_, h.oc, fun hc => by rw [h.pkt]; exact h.cl rfl hc⟩

/-- the stores of such a history, on the log: each lies inside the buffer that was current when it was made (the run
    never halts, and a pass halts the run when one of its stores exceeds the current buffer), hence inside the first
    `Lmax` bytes -/
theorem every_store_inside_the_buffer_any_sizes (cfg : Cfg) (d : DST) (A Lmax : Nat) (hcfg : CfgOK A cfg d)
    (hsmall : 8 * Lmax + A ≤ 2 ^ 32) (L : Nat) (p : Plat) (hL : GoodBuf cfg d A Lmax p.openArgs L)
    (htg : p.toggles = []) (hsb : ∀ x ∈ p.setBufs, GoodBuf cfg d A Lmax p.openArgs x.2)
    (ops : List Op) (hops : OpsSmall d Lmax A ops) (hen : NeverDisabled ops) (off n : Nat) (flag isOpen : Bool)
    (h : Ev.store off n flag isOpen ∈ (runOps cfg d (.open_ :: ops) (rtInit L p)).log) : off + n ≤ Lmax :=
  (runOps_from_init cfg d A Lmax hcfg hsmall L p hL htg hsb ops hops hen).stin _ h

/-- while a packet is open, the offsets saved for the closing function's write-backs are inside the buffer -/
theorem saved_offsets_inside_the_buffer (cfg : Cfg) (d : DST) (L A : Nat) (hcfg : CfgOK A cfg d)
    (hsmall : 8 * L + A ≤ 2 ^ 32) (p : Plat) (hsb : ∀ x ∈ p.setBufs, x.2 = L)
    (hhdr : ∀ args ∈ openArgsOf p.openArgs, hdrEndN cfg d args ≤ 8 * L)
    (ops : List Op) (hops : OpsSmall d L A ops)
    (ho : (runOps cfg d ops (rtInit L p)).c.packetIsOpen = true) :
    SavedOK d.pcOp.members (runOps cfg d ops (rtInit L p)).c.saved (8 * L) :=
  (runOps_pinv cfg d L A p.openArgs hcfg hsmall hhdr ops hops (rtInit L p)
    (rtInit_pinv d L A hcfg.Apos hsmall p hsb)).sv ho

/-! Non-vacuity -/
def c02S : Struct := ⟨1, [⟨"n", .el (.sc (.int false 8 8))⟩, ⟨"a", .darr "n" (.sc (.int false 5 8))⟩,
                           ⟨"t", .el (.sc (.int true 4 1))⟩, ⟨"s", .el (.sc .str)⟩]⟩
def c02Args : Args := [("p_n", [.num 2]), ("p_a", [.num 5, .num 33]), ("p_t", [.num (-3)]), ("p_s", [.str [104, 105]])]
def c02St (n : Nat) : SerSt := ⟨List.replicate n 255, 3, [], [], false, []⟩
example : RootOK c02S := ⟨⟨3, by decide⟩, by
  intro m hm
  simp only [c02S, List.mem_cons, List.mem_nil_iff, or_false] at hm
  rcases hm with rfl | rfl | rfl | rfl
  · exact ⟨by simp, ⟨3, rfl⟩⟩
  · exact ⟨by simp, ⟨3, rfl⟩⟩
  · exact ⟨by simp, ⟨0, rfl⟩⟩
  · exact ⟨by simp, ⟨3, rfl⟩⟩⟩
/-- the record ends at bit 64 when written from bit 3: an 8-byte buffer is enough, a 7-byte one is not — and the
    size pass says so -/
example : structEndN "p" c02Args c02S 3 = 64 ∧ sizeRoot "p" (buildRoot specNone c02S) c02Args 3 = 64 := by decide +kernel
example : (serRoot ⟨.le, true, [], 0, 0, 0, 0, 0⟩ "p" (buildRoot specNone c02S) c02Args (c02St 8)).oob = false := by decide +kernel
example : (serRoot ⟨.le, true, [], 0, 0, 0, 0, 0⟩ "p" (buildRoot specNone c02S) c02Args (c02St 7)).oob = true := by decide +kernel

example : (({ buf := [0, 0], at_ := 8, saved := [], stores := [], oob := false, leaves := [] } : SerSt).store 1 2 [0, 1, 2]).oob = true := by
  decide


/-- a configuration that meets `CfgOK`: 16-bit sizes, discarded counter and sequence number, a payload with a dynamic
    array of 5-bit integers and a string; header + context = 48 bits -/
def c02Dst : DST :=
  { name := "s", id := 0, clock := none,
    feat := { totalSize := .int false 16 8, contentSize := .int false 16 8, tsBegin := none, tsEnd := none,
              discarded := some (.int false 8 8), seqNum := some (.int false 8 8), ertId := none, erTs := none },
    pcExtra := [], ercc := none,
    erts := [{ name := "e", id := 0, sc := none, p := some c02S }] }
def c02Cfg : Cfg :=
  { bo := .le, fast := true, uuid := [], feat := { magic := none, uuid := false, dstId := none }, dsts := [c02Dst] }
def c02Ops : List Op := [.open_, .trace "e" c02Args, .enable false, .close, .enable true, .trace "e" c02Args,
  .trace "e" c02Args, .fin]
example : cfgOKb 8 c02Cfg c02Dst = true ∧ hdrFitsb c02Cfg c02Dst 16 [] = true ∧ 8 * 16 + 8 ≤ 2 ^ 32 := by decide +kernel
example : OpsSmall c02Dst 16 8 c02Ops := by
  intro en args hm e he hn a ha
  have hargs : args = c02Args := by
    simp only [c02Ops, List.mem_cons, Op.trace.injEq, List.mem_nil_iff, or_false, reduceCtorEq, false_or] at hm
    rcases hm with h | h | h <;> exact h.2
  have hee : e = { name := "e", id := 0, sc := none, p := some c02S } := by
    simpa [c02Dst] using he
  subst hargs hee
  revert a
  decide +kernel
example : (runOps c02Cfg c02Dst c02Ops (rtInit 16 { fullAnswers := [false, true] })).halted = false := by decide +kernel
/-- two buffer sizes (16 bytes, then 12 after the first closing), back end full once: the hypotheses are met -/
example : GoodBuf c02Cfg c02Dst 8 16 [] 16 ∧ GoodBuf c02Cfg c02Dst 8 16 [] 12 :=
  ⟨⟨by decide, by intro a ha; simp [openArgsOf] at ha; subst ha; decide +kernel⟩,
   ⟨by decide, by intro a ha; simp [openArgsOf] at ha; subst ha; decide +kernel⟩⟩
example : (runOps c02Cfg c02Dst (.open_ :: [.trace "e" c02Args, .close, .trace "e" c02Args, .trace "e" c02Args, .fin])
    (rtInit 16 { fullAnswers := [false, true], setBufs := [(0, 12)] })).halted = false := by decide +kernel
/-- the stores of the example run: 18 of them, the highest ends at byte 13 of the 16-byte buffer -/
example : ((runOps c02Cfg c02Dst c02Ops (rtInit 16 { fullAnswers := [false, true] })).log.filterMap
    fun e => match e with | .store o n _ _ => some (o + n) | _ => none) =
    [5, 4, 13, 10, 9, 8, 7, 6, 2, 5, 4, 13, 10, 9, 8, 7, 6, 2] := by decide +kernel

#print axioms stores_are_logged_truthfully
#print axioms string_store_logged_truthfully
#print axioms oob_store_is_detected
#print axioms oob_halts
#print axioms record_checked_before_write
#print axioms no_undefined_shift
#print axioms size_pass_is_serialise_advance
#print axioms fits_implies_in_bounds
#print axioms size_pass_exact
#print axioms record_within_reserved_space
#print axioms any_root_fits_implies_in_bounds
#print axioms er_size_is_er_serialise_advance
#print axioms tracing_call_writes_inside_the_packet
#print axioms no_store_outside_the_buffer
#print axioms every_store_inside_the_buffer
#print axioms no_store_outside_the_buffer_exec
#print axioms no_store_outside_the_buffer_any_sizes
#print axioms every_store_inside_the_buffer_any_sizes
#print axioms saved_offsets_inside_the_buffer
end BVM
