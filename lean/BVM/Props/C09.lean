/-
  Props/C09.lean — property C09 (work in progress: theorems are added below).
-/
import BVM.Model.Load
import BVM.Gen.Schemas
namespace BVM
end BVM
