/-
  Props/C09.lean — property C09: configurations violating a documented constraint are never accepted.

  Model of what the code does: `load3` / `load2` (Model/Build.lean, Model/Load.lean) = the staged
  pipeline of `_parse`: the four schema stages interpreted by Model/Schema.lean over `Gen.store` — the
  translation of /repo's schema files, regenerated on every run — interleaved with the expansion stages
  (C11/C12 model) and followed by the checks `_create_config` makes in Python (`pyChecks`).

  What is proved:
   * `accepted_passed_every_stage`: a document `load3` accepts passed the effective-configuration schema
     stage and the Python checks;
   * on the regenerated schema table (the `lookup_*` lemmas are re-checked against `Gen.store`, i.e. against
     the schema files as they are now): integer sizes are integers between 1 and 64; optional alignments are
     null or an integer ≥ 1; byte orders are one of the six documented spellings; an identifier is a string of
     letters, digits and underscores not starting with a digit (no trailing new-line) which is none of the 28
     documented TSDL keywords;
   * the Python checks: an alignment passes iff it is a power of two; accepted structure member lists have
     pairwise distinct names none of which is a keyword; the keyword set of `_validate_iden` (regenerated from
     config_parse_v3.py) contains every documented keyword.
  Partial: there is no single theorem `accepts → Spec` over the whole document grammar; the remaining
  constraints of the statement are enforced by the same two mechanisms and are covered, on every run, by the
  fault catalogue (every documented constraint × every location, real loader) and by verdict agreement
  between `load3`/`load2` and the real loader in both directions.
-/
import BVM.Proofs.SchemaSem
import BVM.Proofs.Bridge
import BVM.Gen.Schemas
namespace BVM

def K_common (d : String) : String := "https://barectf.org/schemas/config/common/common.json#/definitions/" ++ d

/-- docs/modules/yaml/pages/index.adoc, "TSDL identifier" -/
def docKeywords : List String :=
  ["align", "callsite", "const", "char", "clock", "double", "enum", "env", "event", "floating_point", "float",
   "integer", "int", "long", "short", "signed", "stream", "string", "struct", "trace", "typealias", "typedef",
   "unsigned", "variant", "void", "_Bool", "_Complex", "_Imaginary"]

/-! ### the regenerated schema table says what the documentation says -/

theorem lookup_int_size : Gen.store.lookup (K_common "int-ft-size-prop") =
    some (Schema.obj [.type [.integer], .minimum 1, .maximum 64]) := by rfl

theorem lookup_opt_int_min_1 : Gen.store.lookup (K_common "opt-int-min-1") =
    some (Schema.obj [.ite (.obj [.type [.integer]]) (some (.obj [.minimum 1])) (some (.obj [.type [.null]]))]) := by rfl

theorem lookup_opt_int_min_0 : Gen.store.lookup (K_common "opt-int-min-0") =
    some (Schema.obj [.ite (.obj [.type [.integer]]) (some (.obj [.minimum 0])) (some (.obj [.type [.null]]))]) := by rfl

theorem lookup_byte_order : Gen.store.lookup (K_common "byte-order-prop") =
    some (Schema.obj [.type [.string],
      .enum (["le", "little", "little-endian", "be", "big", "big-endian"].map Y.str)]) := by rfl

theorem lookup_iden : Gen.store.lookup (K_common "iden-prop") =
    some (Schema.obj [.type [.string],
      .allOf [.obj [.pattern .idenZ], .obj [.not (.obj [.enum (docKeywords.map Y.str)])]]]) := by rfl

theorem validate_ref (store : Store) (fuel : Nat) (key : String) (t : Schema) (y : Y)
    (h : store.lookup key = some t) : validate store (fuel + 1) (.ref key) y = validate store fuel t y := by
  simp [validate, h]

/-- integer size outside 1–64 (or not an integer) never passes -/
theorem int_size_constraint (fuel : Nat) (y : Y) :
    validate Gen.store (fuel + 2) (.ref (K_common "int-ft-size-prop")) y = some true ↔
      ∃ n, y = .int n ∧ 1 ≤ n ∧ n ≤ 64 := by
  rw [validate_ref _ _ _ _ _ lookup_int_size]; exact sem_int_range _ _ _ _ _

/-- alignment / minimum alignment / frequency: null or an integer ≥ 1 -/
theorem opt_int_min_1_constraint (fuel : Nat) (y : Y) :
    validate Gen.store (fuel + 3) (.ref (K_common "opt-int-min-1")) y = some true ↔
      (y = .null ∨ ∃ n, y = .int n ∧ 1 ≤ n) := by
  rw [validate_ref _ _ _ _ _ lookup_opt_int_min_1]; exact sem_opt_int_min _ _ _ _

theorem opt_int_min_0_constraint (fuel : Nat) (y : Y) :
    validate Gen.store (fuel + 3) (.ref (K_common "opt-int-min-0")) y = some true ↔
      (y = .null ∨ ∃ n, y = .int n ∧ 0 ≤ n) := by
  rw [validate_ref _ _ _ _ _ lookup_opt_int_min_0]; exact sem_opt_int_min _ _ _ _

theorem byte_order_constraint (fuel : Nat) (y : Y) :
    validate Gen.store (fuel + 2) (.ref (K_common "byte-order-prop")) y = some true ↔
      ∃ s, y = .str s ∧ s ∈ ["le", "little", "little-endian", "be", "big", "big-endian"] := by
  rw [validate_ref _ _ _ _ _ lookup_byte_order]; exact sem_str_enum _ _ _ _

/-- invalid identifier: not a string, bad characters (a trailing new-line included), or a TSDL keyword -/
theorem identifier_constraint (fuel : Nat) (y : Y) :
    validate Gen.store (fuel + 4) (.ref (K_common "iden-prop")) y = some true ↔
      ∃ s, y = .str s ∧ matchIdenZ s.toList = true ∧ s ∉ docKeywords := by
  rw [validate_ref _ _ _ _ _ lookup_iden]; exact sem_iden _ _ _ _

theorem identifier_chars (cs : List Char) (h : matchIdenZ cs = true) :
    cs ≠ [] ∧ (∀ c ∈ cs, c.isAlphanum = true ∨ c = '_') ∧ '\n' ∉ cs :=
  ⟨(matchIdenZ_chars cs h).1, (matchIdenZ_chars cs h).2, matchIdenZ_no_newline cs h⟩

/-! ### the checks made in Python -/

/-- alignment not a power of two never passes `_validate_alignment` -/
theorem alignment_power_of_two (a : Int) : validateAlignment a = .ok () ↔ ∃ k : Nat, a = 2 ^ k :=
  validateAlignment_ok a

/-- the keyword set of `_validate_iden` (regenerated from the source) has every documented keyword -/
theorem python_keywords_cover_docs : ∀ w ∈ docKeywords, w ∈ ctfKeywords := by decide

theorem keyword_rejected (w : String) (h : w ∈ docKeywords) : validateIden w ≠ .ok () := by
  have := python_keywords_cover_docs w h
  simp [validateIden, this]

/-- duplicate member names and keyword member names are never accepted -/
theorem member_names_distinct (fuel : Nat) (ms : List Y) (h : createMembers fuel ms [] = .ok ()) :
    (ms.filterMap memberName).Nodup ∧ ∀ n ∈ ms.filterMap memberName, n ∉ ctfKeywords := by
  obtain ⟨h1, h2, _⟩ := createMembers_names fuel ms [] h
  exact ⟨h1, fun n hn => (h2 n hn).2⟩

theorem id_width (sz : Int) (count : Nat) : tooSmall (some (.int sz)) count = false ↔ count ≤ 2 ^ sz.toNat := by
  simp [tooSmall]

/-- a document the model of the loader accepts passed the effective-configuration schema stage and the
    checks made in Python -/
theorem accepted_passed_every_stage (store : Store) (W : World) (fuel : Nat) (cfg e : KVs)
    (h : load3 store W fuel cfg = .ok e) :
    pyChecks fuel e = .ok () ∧ ∃ cfg3, schemaStage store fuel "config/3/config" (.map cfg3) = .ok () := by
  simp only [load3, bind, Except.bind, pure, Except.pure] at h
  cases h0 : schemaStage store fuel "config/3/config-pre-include" (Y.map cfg) with
  | error _ => simp [h0] at h
  | ok _ =>
  simp only [h0] at h
  cases h1 : reqK "trace" cfg with
  | error _ => simp [h1] at h
  | ok tr =>
  simp only [h1] at h
  cases h2 : procIncludeChecked store W fuel [] Kind.trace tr with
  | error _ => simp [h2] at h
  | ok tr1 =>
  simp only [h2] at h
  cases h3 : schemaStage store fuel "config/3/config-pre-field-type-expansion" (Y.map (kvSet "trace" tr1 cfg)) with
  | error _ => simp [h3] at h
  | ok _ =>
  simp only [h3] at h
  cases tr1 with
  | map m =>
    simp only at h
    cases h4 : reqK "type" m with
    | error _ => simp [h4] at h
    | ok ttv =>
    simp only [h4] at h
    cases ttv with
    | map tt =>
      simp only at h
      cases h5 : expandFts3 fuel tt with
      | error _ => simp [h5] at h
      | ok tt1 =>
      simp only [h5] at h
      cases h6 : schemaStage store fuel "config/3/config-pre-log-level-alias-sub"
          (Y.map (kvSet "trace" (Y.map (kvSet "type" (Y.map tt1) m)) cfg)) with
      | error _ => simp [h6] at h
      | ok _ =>
      simp only [h6] at h
      cases h7 : subLogLevels tt1 with
      | error _ => simp [h7] at h
      | ok tt2 =>
      simp only [h7] at h
      cases h8 : schemaStage store fuel "config/3/config" (Y.map (kvSet "trace" (Y.map (kvSet "type" (Y.map tt2) m)) cfg)) with
      | error _ => simp [h8] at h
      | ok _ =>
      simp only [h8] at h
      cases h9 : normalizeTrace (kvSet "type" (Y.map tt2) m) with
      | error _ => simp [h9] at h
      | ok trm2 =>
      simp only [h9] at h
      cases h10 : pyChecks fuel (kvSet "trace" (Y.map trm2) cfg) with
      | error _ => simp [h10] at h
      | ok u =>
      simp only [h10] at h
      injection h with h
      subst h
      exact ⟨h10, _, h8⟩
    | _ => simp at h
  | _ => simp at h

/-- the effective node of an accepted document is the one the expansion model (C11, C12) gives: the loader
    model with its schema stages and the expansion model agree on everything that is accepted -/
theorem accepted_effective_is_expansion (store : Store) (W : World) (fuel : Nat) (cfg e : KVs)
    (h : load3 store W fuel cfg = .ok e) : expand3 W fuel cfg = .ok e := load3_ok_expand3 store W fuel cfg e h

/-! ### non-vacuity -/

/-- a member named like the generated length member of a dynamic array member is a duplicate, whichever comes first
    (finding F31: it used to be accepted, and the generated C did not compile) -/
def dynMember : Y := .map [("a", .map [("field-type", .map [("class", .str "dynamic-array"),
  ("element-field-type", .map [("class", .str "unsigned-integer"), ("size", .int 8), ("alignment", .int 8),
                               ("preferred-display-base", .str "decimal")])])])]
def lenNamedMember : Y := .map [("__a_len", .map [("field-type", .map [("class", .str "unsigned-integer"), ("size", .int 16),
  ("alignment", .int 8), ("preferred-display-base", .str "decimal")])])]
example : (createMembers 8 [dynMember, lenNamedMember] []).isErr (.other "Duplicate member `__a_len`") = true := by decide +kernel
example : (createMembers 8 [lenNamedMember, dynMember] []).isErr (.other "Duplicate member `__a_len`") = true := by decide +kernel
example : (createMembers 8 [dynMember] []).isOkWith () = true := by decide +kernel
example : validate Gen.store 8 (.ref (K_common "int-ft-size-prop")) (.int 64) = some true := by decide +kernel
example : validate Gen.store 8 (.ref (K_common "int-ft-size-prop")) (.int 65) = some false := by decide +kernel
example : validate Gen.store 8 (.ref (K_common "int-ft-size-prop")) (.float "8.0") = some false := by decide +kernel
example : validate Gen.store 8 (.ref (K_common "iden-prop")) (.str "ev_1") = some true := by decide +kernel
example : validate Gen.store 8 (.ref (K_common "iden-prop")) (.str "ev\n") = some false := by decide +kernel
example : validate Gen.store 8 (.ref (K_common "iden-prop")) (.str "double") = some false := by decide +kernel
example : (match validateAlignment 64 with | .ok _ => true | .error _ => false) = true := by decide +kernel
example : (match validateAlignment 24 with | .ok _ => true | .error _ => false) = false := by decide +kernel

end BVM

#print axioms BVM.lookup_int_size
#print axioms BVM.lookup_opt_int_min_1
#print axioms BVM.lookup_opt_int_min_0
#print axioms BVM.lookup_byte_order
#print axioms BVM.lookup_iden
#print axioms BVM.validate_ref
#print axioms BVM.int_size_constraint
#print axioms BVM.opt_int_min_1_constraint
#print axioms BVM.opt_int_min_0_constraint
#print axioms BVM.byte_order_constraint
#print axioms BVM.identifier_constraint
#print axioms BVM.identifier_chars
#print axioms BVM.alignment_power_of_two
#print axioms BVM.python_keywords_cover_docs
#print axioms BVM.keyword_rejected
#print axioms BVM.member_names_distinct
#print axioms BVM.id_width
#print axioms BVM.accepted_passed_every_stage
#print axioms BVM.accepted_effective_is_expansion
