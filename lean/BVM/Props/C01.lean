/-
  Props/C01.lean — property C01: metadata-driven decoding returns exactly the traced values.

  Layers: (1) writer = the bit-field macros / memcpy fast path (Model/Bits, proved bit-exact in C08);
  (2) reader = `readBits` of Model/Tsdl.lean, defined from the CTF 1.8 bit-order rules only;
  (3) what the metadata says = `tsdlStruct` (transcription of tsdl182gen.py and the metadata
  templates).  Proved here, for every carrier type, value, size, offset, prior buffer content:
    * scalar_roundtrip — reading a field back, in either byte order, returns the value written
      reduced mod 2^size; `signed_reduction` gives the signed interpretation; `memcpy_roundtrip`
      covers the fast path;
    * scalar_frame — a later write does not disturb the read of a field it does not overlap
      (so earlier fields of a record still read back after the following ones are written);
    * struct_alignment_agrees — the alignment a CTF reader computes for a structure from the text
      (maximum of `align(N)` and of the members' alignments, arrays → element, strings → 8) is the
      alignment `config.py` gives the structure and `cgen.py` aligns to;
    * static_start_bits_are_dynamic — the bit offset within the current byte which `_OpBuilder` tracks at
      generation time and passes to the macros as a constant start bit is, at every write of every tree it
      can build, the run-time `ctx->at % 8` (Proofs/Oib.lean): serialising with the built tree = serialising
      with all start bits computed at run time;
    * member_text_agrees — per member, the TSDL text states the size, alignment and signedness the
      serialiser uses, and the array lengths outermost first.
    * record_roundtrip — **whole root structures**: for every structure of user members (scalars, strings,
      static arrays of any nesting and length, dynamic arrays), every argument list, byte order, starting
      position and buffer, if every store is inside the buffer then reading the buffer back *by the metadata*
      (`readStruct (tsdlStruct S)`) returns, member by member, the traced values reduced to their fields, and
      stops where the tracer stopped; nothing below the starting position is modified (Proofs/RoundTrip.lean).
      Hypotheses, all evaluated on a concrete record below: scalars well formed, string arguments without NUL,
      `8·L + 2·align ≤ 2^32` (no `uint32_t` wrap: finding F11's territory), the memcpy fast path only on a
      little-endian host, and each sequence's length member decodes to the count the tracer used
      (`LenScopeOK`; `lenScopeOKb` is its executable form).
  Still partial (`decode_serialize_partial`): the composition to whole *packets* — headers and contexts written
  through the specialised templates (magic, sizes written back at closing, timestamps), several records, the
  content-size bound — is not proved; it is evaluated on every run by three ties: the real operation trees equal
  the model's, the parsed real metadata equals `tsdlStruct`, and real packets decoded by the Python reader (from
  the real metadata) and by the Lean reader (from `tsdlStruct`) agree with each other and with the traced
  arguments.
-/
import BVM.Proofs.Read
import BVM.Proofs.Oib
import BVM.Proofs.RoundTrip
import BVM.Proofs.RoundTripPre
import BVM.Proofs.LenScope
namespace BVM

theorem scalar_roundtrip (bo : ByteOrder) (vt : CInt) (buf : Buf) (base start len : Nat) (v : Int)
    (hb : base + (start + len + 7) / 8 ≤ buf.length) :
    readBits bo (bfWrite bo vt buf base start len v) (8 * base + start) len = (v % (2 : Int) ^ len).toNat :=
  read_write bo vt buf base start len v hb

theorem signed_reduction (size : Nat) (hs : 0 < size) (v : Int) :
    signExtend true size ((v % (2 : Int) ^ size).toNat) =
      (if (v % (2 : Int) ^ size) < (2 : Int) ^ (size - 1) then v % (2 : Int) ^ size else v % (2 : Int) ^ size - (2 : Int) ^ size) :=
  signExtend_reduce size hs v

theorem memcpy_roundtrip (buf : Buf) (base n x : Nat) (hb : base + n ≤ buf.length) :
    readBitsLE (memcpyLE n buf base x) (8 * base) (8 * n) = x % 2 ^ (8 * n) :=
  readLE_memcpy buf base n x hb

theorem scalar_frame (bo : ByteOrder) (vt : CInt) (buf : Buf) (base start len : Nat) (v : Int)
    (hb : base + (start + len + 7) / 8 ≤ buf.length) (at_ n : Nat)
    (hd : at_ + n ≤ 8 * base + start ∨ 8 * base + start + len ≤ at_) :
    readBits bo (bfWrite bo vt buf base start len v) at_ n = readBits bo buf at_ n := by
  cases bo
  · exact readLE_frame vt buf base start len v hb at_ n hd
  · exact readBE_frame vt buf base start len v hb at_ n hd

theorem elem_leaf_align (e : Elem) : e.leaf.align = e.align := by
  induction e with
  | sc s => rfl
  | sarr n e ih => exact ih

theorem tsdlScalar_align (s : Scalar) : (tsdlScalar s).align = s.align := by
  cases s <;> rfl

theorem tsdlMember_align (m : Member) : (tsdlMember m).ty.align = m.ft.align := by
  unfold tsdlMember
  cases h : m.ft with
  | el e => simp [tsdlScalar_align, elem_leaf_align, FT.align]
  | darr ln e => simp [tsdlScalar_align, elem_leaf_align, FT.align]
  | uuid => rfl

theorem foldl_align_map (ms : List Member) (a : Nat) :
    (ms.map tsdlMember).foldl (fun a m => max a m.ty.align) a = ms.foldl (fun a m => max a m.ft.align) a := by
  induction ms generalizing a with
  | nil => rfl
  | cons m ms ih => simp only [List.map, List.foldl]; rw [tsdlMember_align, ih]

theorem struct_alignment_agrees (s : Struct) : (tsdlStruct s).effAlign = s.align := by
  unfold TStruct.effAlign tsdlStruct Struct.align
  exact foldl_align_map s.members s.minAlign

/-- what the text says about a scalar member is what the serialiser writes: same size, alignment and
    signedness -/
theorem member_text_agrees (name : String) (sg : Bool) (sz al : Nat) :
    tsdlMember ⟨name, .el (.sc (.int sg sz al))⟩ = ⟨name, .int sg sz al, []⟩ ∧
    (Scalar.int sg sz al).size = sz ∧ (Scalar.int sg sz al).carrier.signed = sg := ⟨rfl, rfl, rfl⟩

/-- the C carrier type chosen for an integer field holds the whole field (so C08's `len ≤ width`) -/
theorem carrier_holds_field (sg : Bool) (sz al : Nat) (h : sz ≤ 64) : sz ≤ (Scalar.int sg sz al).carrier.width := by
  show sz ≤ cWidth sz
  unfold cWidth
  split <;> (try split) <;> (try split) <;> omega

/-- array lengths are stated outermost first -/
theorem lengths_outermost_first (n : Nat) (e : Elem) : elemLens (.sarr n e) = .lit n :: elemLens e := rfl

/-- **the static start bits are the run-time ones**: `_OpBuilder` (cgen.py) tracks the bit offset within the
    current byte at generation time and hands it to the bit-field macros as their start bit.  For every root
    structure whose alignments are powers of two, every specialisation table, every argument list and every
    state, serialising with the tree it builds equals serialising with the same tree in which every write
    computes its start bit as `ctx->at % 8`: the tracked offset is never wrong — after alignments of 1, 2, 4
    bits, after strings, across static and dynamic arrays of any length (zero included) and nesting. -/
theorem static_start_bits_are_dynamic (env : SerEnv) (pfx : String) (args : Args) (spec : String → Option WSrc)
    (S : Struct) (hS : ∃ j, S.align = 2 ^ j) (hms : ∀ m ∈ S.members, m.ft.AlOK ∧ specOK spec m) (s : SerSt) :
    serRoot env pfx (buildRoot spec S) args s = serRoot env pfx (buildRoot spec S).erase args s :=
  buildRoot_transparent env pfx args spec S hS hms s

/-- **record-level round trip** (`decode ∘ serialise = id` on one root structure).  Let `S` be a root structure
    (payload, specific/common context, …: no specialised template, no UUID member) whose alignment is a power of
    two and whose members' scalars are well formed (`MemberOK`: sizes 1–64, alignments powers of two, string
    arguments are C strings); let the tracer serialise `args` with the operation tree `_OpBuilder` builds, from any
    state `s` whose position is inside a buffer of `L` bytes (`8·L + 2·align ≤ 2^32`), with every store inside the
    buffer (`oob = false`: what C02 is about), in either byte order, the memcpy fast path being taken only on a
    little-endian host (`Frame.fast`).  Then a CTF 1.8 reader that follows the *metadata* (`tsdlStruct S`: sizes,
    alignments, byte order, array lengths, the sequence length read from the earlier member it names) from the
    same starting position returns, member by member, exactly the traced values reduced to their fields
    (`decMember`), and ends where the tracer ended; the bits below the starting position are untouched (so records
    and packet fields written earlier still read back). -/
theorem record_roundtrip (env : SerEnv) (pfx : String) (args : Args) (S : Struct) (s : SerSt) (L : Nat)
    (F : Frame env L S.align) (hS : ∃ j, S.align = 2 ^ j) (hms : ∀ m ∈ S.members, MemberOK S.align pfx args m)
    (hsc : LenScopeOK pfx args S.members []) (hlen : s.buf.length = L) (hat : s.at_ ≤ 8 * L)
    (h : (serRoot env pfx (buildRoot specNone S) args s).oob = false) :
    readStruct env.bo (serRoot env pfx (buildRoot specNone S) args s).buf (8 * L) (tsdlStruct S) s.at_ =
      some (S.members.map (fun m => (m.name, decMember pfx args m)), (serRoot env pfx (buildRoot specNone S) args s).at_) ∧
    PrefixEq env.bo s.at_ s.buf (serRoot env pfx (buildRoot specNone S) args s).buf ∧
    s.at_ ≤ (serRoot env pfx (buildRoot specNone S) args s).at_ :=
  struct_roundtrip env pfx args S s L F hS hms hsc hlen hat h

/-- the same under one **executable** precondition (`rootPreb`, Model/Decode.lean: alignments powers of two, sizes
    1–64, C strings, sequence lengths found and equal to the counts written, no 2^32 wrap, fast path only on a
    little-endian host).  The driver evaluates `rootPreb` on the records the harness traces with the real tracer
    (op `rtpre`), so the theorem is known to be about those records. -/
theorem record_roundtrip_exec (env : SerEnv) (pfx : String) (args : Args) (S : Struct) (s : SerSt)
    (hpre : rootPreb env s.buf.length pfx args S s.at_ = true)
    (h : (serRoot env pfx (buildRoot specNone S) args s).oob = false) :
    readStruct env.bo (serRoot env pfx (buildRoot specNone S) args s).buf (8 * s.buf.length) (tsdlStruct S) s.at_ =
      some (S.members.map (fun m => (m.name, decMember pfx args m)), (serRoot env pfx (buildRoot specNone S) args s).at_) ∧
    PrefixEq env.bo s.at_ s.buf (serRoot env pfx (buildRoot specNone S) args s).buf ∧
    s.at_ ≤ (serRoot env pfx (buildRoot specNone S) args s).at_ :=
  struct_roundtrip_exec env pfx args S s hpre h

/-- the hypothesis on sequence lengths is a consequence of the structure's shape: if each dynamic array's length member
    (`__<name>_len`, generated by the front end in front of the array) is an unsigned integer of at most 32 bits that no
    later member shadows, and the length argument fits it, then every sequence finds its count (`LenScopeOK`) -/
theorem length_scope_from_structure (pfx : String) (args : Args) (S : Struct) (h : LenSyn pfx args [] S.members) :
    LenScopeOK pfx args S.members [] := by
  have := lenScopeOK_of_lenSyn pfx args S.members [] h
  simpa [scopeOf] using this

/-- the side conditions on a member follow from the well-formedness the front end guarantees -/
theorem member_side_conditions (S : Struct) (hS : ∃ j, S.align = 2 ^ j) (pfx : String) (args : Args) (m : Member)
    (hm : m ∈ S.members) (hnu : m.ft ≠ .uuid) (hwf : m.ft.leaf.WF) (hl : ∀ l ∈ args.get (pfx ++ "_" ++ m.name), LeafOK l) :
    MemberOK S.align pfx args m := memberOK_of S hS pfx args m hm hnu hwf hl

/-! Non-vacuity -/
/-- a structure with a 5-bit element aligned on 8 in a dynamic array followed by a bit-packed member (the shape
    on which a builder that keeps the element's offset after the loop goes wrong when the array is empty) meets
    the hypotheses, and its tree does carry static offsets -/
def c01S : Struct := ⟨1, [⟨"n", .el (.sc (.int false 8 8))⟩, ⟨"a", .darr "n" (.sc (.int false 5 8))⟩,
                           ⟨"t", .el (.sc (.int false 4 1))⟩, ⟨"u", .el (.sc (.int false 3 2))⟩]⟩
example : (∃ j, c01S.align = 2 ^ j) ∧ ∀ m ∈ c01S.members, m.ft.AlOK ∧ specOK specNone m := by
  refine ⟨⟨3, by decide⟩, ?_⟩
  intro m hm
  simp only [c01S, List.mem_cons, List.mem_nil_iff, or_false] at hm
  rcases hm with rfl | rfl | rfl | rfl
  · exact ⟨⟨3, rfl⟩, by simp [specOK, specNone]⟩
  · exact ⟨⟨3, rfl⟩, by simp [specOK]⟩
  · exact ⟨⟨0, rfl⟩, by simp [specOK, specNone]⟩
  · exact ⟨⟨1, rfl⟩, by simp [specOK, specNone]⟩
example : (buildRoot specNone c01S).members =
    [.el "n" (.leaf (some 8) ⟨.arg, .int false 8 8, some 0⟩),
     .dloop "a" (some 8) "n" (.leaf (some 8) ⟨.arg, .int false 5 8, none⟩),
     .el "t" (.leaf none ⟨.arg, .int false 4 1, none⟩),
     .el "u" (.leaf (some 2) ⟨.arg, .int false 3 2, none⟩)] := by decide

example : readBits .be (bfWrite .be ⟨16, true⟩ [0, 0, 0, 0] 1 3 13 (-2)) (8 * 1 + 3) 13 = 8190 := by decide
example : signExtend true 13 8190 = -2 := by decide

/-- a record with a sequence of 5-bit elements aligned on 8, bit-packed members, a signed value and a string,
    serialised big endian from bit 3 of a 16-byte buffer of ones: every hypothesis of `record_roundtrip` holds … -/
def c01R : Struct := ⟨1, [⟨"n", .el (.sc (.int false 8 8))⟩, ⟨"a", .darr "n" (.sc (.int false 5 8))⟩,
                           ⟨"t", .el (.sc (.int true 4 1))⟩, ⟨"u", .el (.sarr 2 (.sc (.int false 3 2)))⟩,
                           ⟨"s", .el (.sc .str)⟩]⟩
def c01Env : SerEnv := ⟨.be, false, [], 0, 0, 0, 0, 0⟩
def c01Args : Args := [("p_n", [.num 2]), ("p_a", [.num 5, .num 33]), ("p_t", [.num (-3)]), ("p_u", [.num 6, .num 9]),
                       ("p_s", [.str [104, 105]])]
def c01St : SerSt := ⟨List.replicate 16 255, 3, [], [], false, []⟩

example : rootPreb c01Env c01St.buf.length "p" c01Args c01R c01St.at_ = true := by decide +kernel
example : LenSyn "p" c01Args [] c01R.members := by
  simp only [c01R, LenSyn, List.nil_append, List.cons_append]
  refine ⟨by simp, ?_, by simp, by simp, by simp, trivial⟩
  intro ln e hft
  simp only [FT.darr.injEq] at hft
  obtain ⟨rfl, rfl⟩ := hft
  exact ⟨[], [], 8, 8, rfl, by simp, by decide, by decide +kernel, by decide +kernel⟩
example : Frame c01Env 16 c01R.align := ⟨by simp [c01Env], by decide, by decide⟩
example : (serRoot c01Env "p" (buildRoot specNone c01R) c01Args c01St).oob = false := by decide +kernel
example : LenScopeOK "p" c01Args c01R.members [] := lenScopeOKb_sound _ _ _ _ (by decide +kernel)
example : ∀ m ∈ c01R.members, MemberOK c01R.align "p" c01Args m := by
  intro m hm
  have hS : ∃ j, c01R.align = 2 ^ j := ⟨3, by decide⟩
  have hm' := hm
  simp only [c01R, List.mem_cons, List.mem_nil_iff, or_false] at hm'
  rcases hm' with rfl | rfl | rfl | rfl | rfl
  · exact memberOK_of c01R hS _ _ _ hm (by simp) ⟨by decide, by decide, 3, rfl⟩ (by decide +kernel)
  · exact memberOK_of c01R hS _ _ _ hm (by simp) ⟨by decide, by decide, 3, rfl⟩ (by decide +kernel)
  · exact memberOK_of c01R hS _ _ _ hm (by simp) ⟨by decide, by decide, 0, rfl⟩ (by decide +kernel)
  · exact memberOK_of c01R hS _ _ _ hm (by simp) ⟨by decide, by decide, 1, rfl⟩ (by decide +kernel)
  · exact memberOK_of c01R hS _ _ _ hm (by simp) trivial (by decide +kernel)
/-- … and the reader returns 2; 5, 33 mod 32 = 1; −3; 6, 9 mod 8 = 1; "hi" -/
example : readStruct .be (serRoot c01Env "p" (buildRoot specNone c01R) c01Args c01St).buf 128 (tsdlStruct c01R) 3 =
    some ([("n", [.num 2]), ("a", [.num 5, .num 1]), ("t", [.num (-3)]), ("u", [.num 6, .num 1]), ("s", [.str [104, 105]])],
          (serRoot c01Env "p" (buildRoot specNone c01R) c01Args c01St).at_) := by decide +kernel

#print axioms scalar_roundtrip
#print axioms signed_reduction
#print axioms memcpy_roundtrip
#print axioms scalar_frame
#print axioms elem_leaf_align
#print axioms tsdlScalar_align
#print axioms tsdlMember_align
#print axioms foldl_align_map
#print axioms struct_alignment_agrees
#print axioms member_text_agrees
#print axioms carrier_holds_field
#print axioms lengths_outermost_first
#print axioms static_start_bits_are_dynamic
#print axioms record_roundtrip
#print axioms record_roundtrip_exec
#print axioms length_scope_from_structure
#print axioms member_side_conditions
end BVM
