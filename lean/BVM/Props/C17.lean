/-
  Props/C17.lean — property C17: contexts are independent; one context per thread needs no locking.

  The generated tracer is modelled as functions of *one* context state (`St`: the context structure,
  its packet buffer, the platform data it was given) — no function of Model/Rt.lean has any other
  input or output.  That this is true of the generated C (no writable file-scope object, no static
  local variable that is written) is not a theorem but a checked fact about the compiled object:
  the check inspects the symbol table (`nm`) of every generated tracer and runs interleaved
  histories on two contexts (same and different data stream types), thorough: two threads under
  ThreadSanitizer.  Given that, for any number of contexts and any interleaving of their API calls:
    * step_frame — a call on context `i` changes nothing of any other context;
    * interleaving_equals_projection — each context ends in exactly the state (buffer, log, hence
      packets delivered) it reaches when its own calls are run alone, in their own order;
    * steps_commute — calls on distinct contexts commute;
    * disjoint_footprints_commute — on a shared byte-addressed memory (sequentially consistent), two
      store sequences with disjoint footprints leave the same memory under every interleaving.
  Not modelled: hardware memory models weaker than sequential consistency, and interleavings below
  the granularity of one store.
-/
import BVM.Model.Rt
namespace BVM

/-- any number of contexts, each with its own data stream type -/
abbrev Sys := Nat → St

def stepSys (cfg : Cfg) (dOf : Nat → DST) (σ : Sys) (x : Nat × Op) : Sys :=
  fun j => if j = x.1 then stepOp cfg (dOf j) x.2 (σ j) else σ j

def runSys (cfg : Cfg) (dOf : Nat → DST) (l : List (Nat × Op)) (σ : Sys) : Sys :=
  l.foldl (stepSys cfg dOf) σ

/-- the calls of context `i`, in their own order -/
def proj (i : Nat) (l : List (Nat × Op)) : List Op := (l.filter (fun x => x.1 = i)).map (·.2)

theorem step_frame (cfg : Cfg) (dOf : Nat → DST) (σ : Sys) (i j : Nat) (op : Op) (h : j ≠ i) :
    stepSys cfg dOf σ (i, op) j = σ j := by
  simp [stepSys, h]

theorem interleaving_equals_projection (cfg : Cfg) (dOf : Nat → DST) (l : List (Nat × Op)) (σ : Sys) (i : Nat) :
    runSys cfg dOf l σ i = runOps cfg (dOf i) (proj i l) (σ i) := by
  unfold runSys runOps proj
  induction l generalizing σ with
  | nil => rfl
  | cons x xs ih =>
    simp only [List.foldl_cons]
    rw [ih]
    by_cases h : x.1 = i
    · simp [List.filter, h, stepSys]
    · have h' : ¬ i = x.1 := fun e => h e.symm
      simp [List.filter, h, stepSys, h']

theorem steps_commute (cfg : Cfg) (dOf : Nat → DST) (σ : Sys) (i j : Nat) (a b : Op) (h : i ≠ j) :
    stepSys cfg dOf (stepSys cfg dOf σ (i, a)) (j, b) = stepSys cfg dOf (stepSys cfg dOf σ (j, b)) (i, a) := by
  funext k
  by_cases h1 : k = i <;> by_cases h2 : k = j <;> simp [stepSys, h1, h2]
  · subst h1; subst h2; exact absurd rfl h
  · subst h1; simp [h]
  · subst h2; simp [Ne.symm h]

/-! shared memory, sequentially consistent: a store is (address, byte) -/
abbrev Mem := Nat → Nat

def applyStore (m : Mem) (s : Nat × Nat) : Mem := fun a => if a = s.1 then s.2 else m a
def applyStores (l : List (Nat × Nat)) (m : Mem) : Mem := l.foldl applyStore m

/-- `l` is an interleaving of `a` and `b` (each keeping its own order) -/
inductive Interleave : List (Nat × Nat) → List (Nat × Nat) → List (Nat × Nat) → Prop
  | nil : Interleave [] [] []
  | left (x) {a b l} : Interleave a b l → Interleave (x :: a) b (x :: l)
  | right (x) {a b l} : Interleave a b l → Interleave a (x :: b) (x :: l)

def Disjoint (a b : List (Nat × Nat)) : Prop := ∀ x ∈ a, ∀ y ∈ b, x.1 ≠ y.1

theorem applyStore_comm (m : Mem) (x y : Nat × Nat) (h : x.1 ≠ y.1) :
    applyStore (applyStore m x) y = applyStore (applyStore m y) x := by
  funext a
  by_cases h1 : a = x.1 <;> by_cases h2 : a = y.1 <;> simp [applyStore, h1, h2]
  · subst h1; exact absurd h2 h
  · subst h1; simp [h]
  · subst h2; intro e; exact absurd e.symm h

theorem applyStores_comm_one (b : List (Nat × Nat)) (x : Nat × Nat) (m : Mem) (h : ∀ y ∈ b, x.1 ≠ y.1) :
    applyStores b (applyStore m x) = applyStore (applyStores b m) x := by
  unfold applyStores
  induction b generalizing m with
  | nil => rfl
  | cons y ys ih =>
    simp only [List.foldl_cons]
    rw [applyStore_comm m x y (h y (by simp))]
    exact ih _ (fun z hz => h z (by simp [hz]))

theorem disjoint_footprints_commute (a b l : List (Nat × Nat)) (hi : Interleave a b l) (hd : Disjoint a b) (m : Mem) :
    applyStores l m = applyStores b (applyStores a m) := by
  induction hi generalizing m with
  | nil => rfl
  | @left x a' b' l' _ ih =>
    have hd' : Disjoint a' b' := fun u hu v hv => hd u (by simp [hu]) v hv
    show applyStores l' (applyStore m x) = applyStores b' (applyStores a' (applyStore m x))
    exact ih hd' _
  | @right x a' b' l' _ ih =>
    have hd' : Disjoint a' b' := fun u hu v hv => hd u hu v (by simp [hv])
    show applyStores l' (applyStore m x) = applyStores b' (applyStore (applyStores a' m) x)
    rw [ih hd', applyStores_comm_one a' x m (fun y hy => (hd y hy x (by simp)).symm)]

/-! Non-vacuity -/
example : Interleave [(1, 7), (2, 8)] [(5, 9)] [(1, 7), (5, 9), (2, 8)] :=
  .left _ (.right _ (.left _ .nil))
example : Disjoint [(1, 7), (2, 8)] [(5, 9)] := by
  intro x hx y hy; simp at hx hy; rcases hx with rfl | rfl <;> subst hy <;> decide

#print axioms step_frame
#print axioms interleaving_equals_projection
#print axioms steps_commute
#print axioms applyStore_comm
#print axioms applyStores_comm_one
#print axioms disjoint_footprints_commute
end BVM
