import BVM.Model.Rt
namespace BVM
theorem c05_placeholder : True := trivial
#print axioms c05_placeholder
end BVM
