/-
  Props/C05.lean — property C05: packet and record timestamps are consistent snapshots of a
  monotonic clock.

  Setting: the data stream type has a default clock (`d.clock = some clk`); the platform's clock
  source adds a non-negative increment at every call (it never goes backwards) and returns the
  value converted to the clock's C type.  `NoWrap`: the unwrapped clock stays below 2^width until the
  end of the history — the property's "never goes backwards" for the returned values.  `tsWrite`
  ghost events record every value handed to a timestamp position (packet beginning, record, packet
  end), in write order, which is also the order of those positions in the data stream.

    * timestamps_nondecreasing — for every configuration, history, platform script, buffer size: the
      values written to timestamp positions are non-decreasing in write order (`sortedTs`), i.e.
      within every packet beginning ≤ every record timestamp ≤ end, and the end of a packet ≤ the
      beginning of the next; and none exceeds the current clock.
    * record_ts_is_entry_sample — the timestamp a record receives is the value the clock callback
      returned at the entry of its tracing call: `_reserve_er_space` (with all the packet switching
      it may do) does not change `cur_last_event_ts`.
  The fields hold these values modulo their size (writeBits reduces to the field size: C08).
-/
import BVM.Proofs.RtTs
namespace BVM

theorem timestamps_nondecreasing (cfg : Cfg) (d : DST) (clk : Clock) (hclk : d.clock = some clk) (hwf : ClockWF d)
    (ops : List Op) (bytes : Nat) (p : Plat)
    (hw : (runOps cfg d ops (rtInit bytes p)).p.clock < 2 ^ clk.ctype.width) :
    sortedTs (runOps cfg d ops (rtInit bytes p)).log ∧
    lastTs (runOps cfg d ops (rtInit bytes p)).log ≤ (runOps cfg d ops (rtInit bytes p)).p.clock := by
  have h0 : TTop (rtInit bytes p) := ⟨⟨Nat.zero_le _, Nat.zero_le _, trivial⟩, rfl⟩
  have := runOps_t cfg d clk hclk hwf ops (rtInit bytes p) (by simpa [clkW, hclk] using hw) h0
  exact ⟨this.1.sorted, this.1.ts⟩

/-- what `sortedTs` says, unfolded once: a newly written timestamp is at least the previous one -/
theorem sortedTs_cons (k : String) (v : Nat) (l : List Ev) : sortedTs (.tsWrite k v :: l) ↔ lastTs l ≤ v ∧ sortedTs l :=
  Iff.rfl

theorem record_ts_is_entry_sample (cfg : Cfg) (d : DST) (clk : Clock) (hclk : d.clock = some clk)
    (erSize emptySize : Nat) (s : St) (hu : s.c.useCurLastEventTs = false) :
    (traceClock d s).c.curLastEventTs = (cbClock clk s).1 ∧
    (reserve cfg d erSize emptySize (traceClock d s)).2.c.curLastEventTs = (cbClock clk s).1 := by
  have h1 : (traceClock d s).c.curLastEventTs = (cbClock clk s).1 := by
    unfold traceClock; simp only [hclk]; rfl
  refine ⟨h1, ?_⟩
  rw [(reserve_tf0 cfg d erSize emptySize _ ((traceClock_fr d s).2.trans hu)).cur, h1]

/-! Non-vacuity: a run with a clock, a tracer-initiated packet switch and several timestamps written -/
def exDst5 : DST :=
  { name := "s", id := 0, clock := some ⟨"c", ⟨32, false⟩⟩,
    feat := { totalSize := .int false 16 8, contentSize := .int false 16 8, tsBegin := some (.int false 32 8),
              tsEnd := some (.int false 32 8), discarded := none, seqNum := none, ertId := none,
              erTs := some (.int false 16 8) },
    pcExtra := [], ercc := none,
    erts := [{ name := "e", id := 0, sc := none, p := some ⟨1, [⟨"x", .el (.sc (.int false 8 8))⟩]⟩ }] }
def exCfg5 : Cfg :=
  { bo := .le, fast := true, uuid := [], feat := { magic := none, uuid := false, dstId := none }, dsts := [exDst5] }
def exRun5 : St :=
  runOps exCfg5 exDst5 [.open_, .trace "e" [("p_x", [.num 7])], .trace "e" [("p_x", [.num 8])],
    .trace "e" [("p_x", [.num 9])], .fin] (rtInit 18 { clockIncs := [3, 0, 5, 2, 2, 9] })

example : exRun5.halted = false ∧ exRun5.p.clock < 2 ^ 32 ∧ ClockWF exDst5 ∧
    (exRun5.log.filterMap fun e => match e with | .tsWrite _ v => some v | _ => none).length ≥ 6 := by
  refine ⟨by decide +kernel, by decide +kernel, ?_, by decide +kernel⟩
  intro h; cases h

#print axioms timestamps_nondecreasing
#print axioms sortedTs_cons
#print axioms record_ts_is_entry_sample
end BVM
