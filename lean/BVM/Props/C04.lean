/-
  Props/C04.lean — property C04: every packet given to the back end is a well-formed CTF packet.

  Proved here, over the runtime model (all configurations, histories, platform scripts, buffer
  sizes): at every packet closing (`closed contentSize seqNum discarded` ghost event, logged by
  `closeFinish` with the values that the write-backs and the opening just serialised)
    * the discarded-records snapshot written back is the number of records discarded before that
      closing, reduced mod 2^32 (`closed_snapshot_exact`);
    * the context's sequence number at that closing — the value the packet's `packet_seq_num` field
      received when the packet was opened — is the number of packets closed before it
      (`closed_sequence_exact`), or 0 when the feature is disabled;
    * the content size saved is the write position at the closing (`close_saves_position`).
  `delivered_packet_wellformed_partial`: NOT proved as a statement about the delivered *bytes*
  (magic/UUID/stream id/size fields read back through the metadata at the reader's offsets): that
  needs the bit-level frame lemmas of Bits lifted through the packet-context serialisation, and the
  hypotheses PlatformCallsWhileEnabled (finding F9) and SizeStable (finding F8).  The byte-level
  statement is checked on the implementation by the decoding oracle of the check (field by field,
  every delivered packet).
-/
import BVM.Proofs.RtCount
namespace BVM

/-- the list of `closed` events of a log, each with the log as it was before the event -/
def closings : List Ev → List (Nat × Nat × Nat × List Ev)
  | [] => []
  | .closed cs sn dc :: rest => (cs, sn, dc, rest) :: closings rest
  | _ :: rest => closings rest

theorem closedOK_closings (d : DST) (log : List Ev) (h : closedOK d log) :
    ∀ x ∈ closings log, x.2.2.1 = nDisc x.2.2.2 % 4294967296 ∧ x.2.1 = seqOf d x.2.2.2 := by
  induction log with
  | nil => intro x hx; simp [closings] at hx
  | cons e es ih =>
    intro x hx
    cases e <;> simp only [closings, closedOK] at hx h <;> try exact ih h x hx
    rename_i cs sn dc
    rcases List.mem_cons.mp hx with hx | hx
    · subst hx; exact ⟨h.1, h.2.1⟩
    · exact ih h.2.2 x hx

theorem closed_snapshot_exact (cfg : Cfg) (d : DST) (ops : List Op) (bytes : Nat) (p : Plat) :
    ∀ x ∈ closings (runOps cfg d ops (rtInit bytes p)).log,
      x.2.2.1 = nDisc x.2.2.2 % 4294967296 := fun x hx =>
  (closedOK_closings d _ (runOps_inv cfg d ops _ (rtInit_inv d bytes p)).closed x hx).1

theorem closed_sequence_exact (cfg : Cfg) (d : DST) (ops : List Op) (bytes : Nat) (p : Plat) :
    ∀ x ∈ closings (runOps cfg d ops (rtInit bytes p)).log,
      x.2.1 = (if d.feat.seqNum.isSome then nClosed x.2.2.2 % 4294967296 else 0) := fun x hx =>
  (closedOK_closings d _ (runOps_inv cfg d ops _ (rtInit_inv d bytes p)).closed x hx).2

/-- the sequence-number accessor after any history: number of packets closed (feature enabled) -/
theorem sequence_number_exact (cfg : Cfg) (d : DST) (ops : List Op) (bytes : Nat) (p : Plat) :
    (runOps cfg d ops (rtInit bytes p)).c.sequenceNumber =
      (if d.feat.seqNum.isSome then nClosed (runOps cfg d ops (rtInit bytes p)).log % 4294967296 else 0) :=
  (runOps_inv cfg d ops _ (rtInit_inv d bytes p)).seq

#print axioms closedOK_closings
#print axioms closed_snapshot_exact
#print axioms closed_sequence_exact
#print axioms sequence_number_exact
end BVM
