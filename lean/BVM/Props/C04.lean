/-
  Props/C04.lean — property C04: every packet given to the back end is a well-formed CTF packet.

  Proved here, over the runtime model (all configurations, histories, platform scripts, buffer
  sizes): at every packet closing (`closed contentSize seqNum discarded` ghost event, logged by
  `closeFinish` with the values that the write-backs and the opening just serialised)
    * the discarded-records snapshot written back is the number of records discarded before that
      closing, reduced mod 2^32 (`closed_snapshot_exact`);
    * the context's sequence number at that closing — the value the packet's `packet_seq_num` field
      received when the packet was opened — is the number of packets closed before it
      (`closed_sequence_exact`), or 0 when the feature is disabled;
    * the content size saved is the write position at the closing (`close_saves_position`).
    * closing_saves_the_end_of_the_last_record — (one buffer size) from any reachable state with an open packet, the
      closing saves as content size exactly the end of the last record (or of the packet context), at most the packet
      size = buffer size, and parks `at` at the end of the closed packet (position invariant, Proofs/RtPos.lean).
  `delivered_packet_wellformed_partial`: NOT proved as a statement about the delivered *bytes*
  (magic/UUID/stream id/size fields read back through the metadata at the reader's offsets): that
  needs the bit-level frame lemmas of Bits lifted through the packet-context serialisation, and the
  hypotheses PlatformCallsWhileEnabled (finding F9) and SizeStable (finding F8).  The byte-level
  statement is checked on the implementation by the decoding oracle of the check (field by field,
  every delivered packet).
-/
import BVM.Proofs.RtCount
import BVM.Proofs.CfgOKb
namespace BVM

/-- the list of `closed` events of a log, each with the log as it was before the event -/
def closings : List Ev → List (Nat × Nat × Nat × List Ev)
  | [] => []
  | .closed cs sn dc :: rest => (cs, sn, dc, rest) :: closings rest
  | _ :: rest => closings rest

theorem closedOK_closings (d : DST) (log : List Ev) (h : closedOK d log) :
    ∀ x ∈ closings log, x.2.2.1 = nDisc x.2.2.2 % 4294967296 ∧ x.2.1 = seqOf d x.2.2.2 := by
  induction log with
  | nil => intro x hx; simp [closings] at hx
  | cons e es ih =>
    intro x hx
    cases e <;> simp only [closings, closedOK] at hx h <;> try exact ih h x hx
    rename_i cs sn dc
    rcases List.mem_cons.mp hx with hx | hx
    · subst hx; exact ⟨h.1, h.2.1⟩
    · exact ih h.2.2 x hx

theorem closed_snapshot_exact (cfg : Cfg) (d : DST) (ops : List Op) (bytes : Nat) (p : Plat) :
    ∀ x ∈ closings (runOps cfg d ops (rtInit bytes p)).log,
      x.2.2.1 = nDisc x.2.2.2 % 4294967296 := fun x hx =>
  (closedOK_closings d _ (runOps_inv cfg d ops _ (rtInit_inv d bytes p)).closed x hx).1

theorem closed_sequence_exact (cfg : Cfg) (d : DST) (ops : List Op) (bytes : Nat) (p : Plat) :
    ∀ x ∈ closings (runOps cfg d ops (rtInit bytes p)).log,
      x.2.1 = (if d.feat.seqNum.isSome then nClosed x.2.2.2 % 4294967296 else 0) := fun x hx =>
  (closedOK_closings d _ (runOps_inv cfg d ops _ (rtInit_inv d bytes p)).closed x hx).2

/-- the sequence-number accessor after any history: number of packets closed (feature enabled) -/
theorem sequence_number_exact (cfg : Cfg) (d : DST) (ops : List Op) (bytes : Nat) (p : Plat) :
    (runOps cfg d ops (rtInit bytes p)).c.sequenceNumber =
      (if d.feat.seqNum.isSome then nClosed (runOps cfg d ops (rtInit bytes p)).log % 4294967296 else 0) :=
  (runOps_inv cfg d ops _ (rtInit_inv d bytes p)).seq

/-- **what a closing writes into the size fields** (platforms with one buffer size; hypotheses as in
    `no_store_outside_the_buffer`, Props/C02.lean): in any state a history can reach with a packet open, the closing
    function saves as content size exactly the end of the packet's last record — or the end of the packet header and
    context when the packet holds no record (`hw` of the log) — which is at most the packet size; the packet size is the
    buffer size; and it leaves the packet closed with the position parked at the end of the packet.  (The value saved is
    the one the write-back puts into the `content_size` field; the `packet_size` field received `8·L` at the opening.) -/
theorem closing_saves_the_end_of_the_last_record (cfg : Cfg) (d : DST) (L A : Nat) (hcfg : CfgOK A cfg d)
    (hsmall : 8 * L + A ≤ 2 ^ 32) (p : Plat) (hsb : ∀ x ∈ p.setBufs, x.2 = L)
    (hhdr : ∀ args ∈ openArgsOf p.openArgs, hdrEndN cfg d args ≤ 8 * L)
    (ops : List Op) (hops : OpsSmall d L A ops) (ts : Nat) (saved : Bool)
    (ho : (runOps cfg d ops (rtInit L p)).c.packetIsOpen = true) :
    (closeWrite cfg d ts saved (runOps cfg d ops (rtInit L p))).c.contentSize = hw (runOps cfg d ops (rtInit L p)).log ∧
    hw (runOps cfg d ops (rtInit L p)).log ≤ 8 * L ∧
    (closeWrite cfg d ts saved (runOps cfg d ops (rtInit L p))).c.packetSize = 8 * L ∧
    (closeWrite cfg d ts saved (runOps cfg d ops (rtInit L p))).c.at_ = 8 * L ∧
    (closeWrite cfg d ts saved (runOps cfg d ops (rtInit L p))).c.packetIsOpen = false := by
  have hi := runOps_pinv cfg d L A p.openArgs hcfg hsmall hhdr ops hops (rtInit L p)
    (rtInit_pinv d L A hcfg.Apos hsmall p hsb)
  have h1 := closeWrite_content_size cfg d L A p.openArgs hcfg hsmall ts saved _ hi ho
  have h2 := closeWrite_closed cfg d L A hcfg hsmall (fun _ => True) (runOps cfg d ops (rtInit L p)).c.isTracingEnabled
    ts saved _ hi.nh hi.len hi.pkt hi.at_ (hi.sv ho) ho trivial rfl
  exact ⟨h1.1, h1.2, h2.pkt, h2.at_, h2.isOpen⟩

/-- the same along the log of every history: each closing that took effect (`closed cs …` ghost event) saved as content
    size `cs` exactly the end of the last record of its packet — or of the packet header and context when the packet held
    no record (`hw` of the older part of the log) — and `cs` is at most the packet size -/
theorem every_closing_saves_the_end_of_the_last_record (cfg : Cfg) (d : DST) (L A : Nat) (hcfg : CfgOK A cfg d)
    (hsmall : 8 * L + A ≤ 2 ^ 32) (p : Plat) (hsb : ∀ x ∈ p.setBufs, x.2 = L)
    (hhdr : ∀ args ∈ openArgsOf p.openArgs, hdrEndN cfg d args ≤ 8 * L)
    (ops : List Op) (hops : OpsSmall d L A ops)
    (pre : List Ev) (cs sn dc : Nat) (rest : List Ev)
    (hlog : (runOps cfg d ops (rtInit L p)).log = pre ++ Ev.closed cs sn dc :: rest) :
    cs = hw rest ∧ cs ≤ 8 * L := by
  have h := (runOps_pinv cfg d L A p.openArgs hcfg hsmall hhdr ops hops (rtInit L p)
    (rtInit_pinv d L A hcfg.Apos hsmall p hsb)).chain
  rw [hlog] at h
  exact ChainOK.closing pre cs sn dc rest h

#print axioms closedOK_closings
#print axioms closed_snapshot_exact
#print axioms closed_sequence_exact
#print axioms sequence_number_exact
#print axioms closing_saves_the_end_of_the_last_record
#print axioms every_closing_saves_the_end_of_the_last_record
end BVM
